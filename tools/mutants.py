#!/usr/bin/env python3
"""mutants.py [-n MAX] [-per K] [-j PAR] [-only REGEX] : mutation analysis of the contracts.
For the functions that count for a property (props.json), tools/mutate produces one-token mutants (negated
condition, swapped operator, deleted call / store / defer, `return nil` for an error, flipped bool,
continue->break). Each sampled mutant is applied to a scratch copy of /repo (outside /repo and /verif, removed
afterwards) and must compile; then the quick checks of the properties that list the function run on it until
one raises a VIOLATION ("killed"). Mutants no check notices are then run against the repository's test suite:
  survived-both     neither the checks nor the tests notice (equivalent mutant, or a hole in the contracts)
  tests-only        the tests notice, the checks do not
One line per mutant on stdout. Nothing is written to /repo or to /verif/evidence."""
import json, os, re, subprocess, sys, random, tempfile, shutil, argparse
from concurrent.futures import ThreadPoolExecutor
ap=argparse.ArgumentParser(); ap.add_argument('-n',type=int,default=200); ap.add_argument('-per',type=int,default=4)
ap.add_argument('-j',type=int,default=3); ap.add_argument('-only',default=''); ap.add_argument('-seed',type=int,default=1)
ap.add_argument('-notests',action='store_true'); ap.add_argument('-replay',default='',help='previous log: re-run only the mutants it lists as not killed')
a=ap.parse_args()
ENV=dict(os.environ,GOFLAGS='-mod=mod',GOPROXY='off',GOSUMDB='off',GOTOOLCHAIN='local')
DIRS={'scheduler':'pkg/scheduler','runner':'pkg/runner','executor':'pkg/executor','variables':'pkg/variables','output':'pkg/output','utils':'pkg/utils','config':'internal/config','watch':'internal/watch','main':'cmd/taskctl','task':'pkg/task'}
props=json.load(open('/verif/props.json'))
claimed=[c['property_id'] for c in json.load(open('/verif/MANIFEST.json'))['checks']]
fnprops={}
for pid in claimed:
    pc=props[pid]
    for f in (pc.get('functions') or [])+(pc.get('sweep') or []):
        f=f.split('|')[0]; f=re.sub(r'\$\d+$','',f)
        fnprops.setdefault(f,[])
        if pid not in fnprops[f]: fnprops[f].append(pid)
def locate(fn):
    pkg,rest=fn.split('.',1)
    d=DIRS.get(pkg)
    if not d: return None
    m=re.match(r'\(\*?(\w+)\)\.(\w+)$',rest)
    if m: pat=r'^func \(\w+ \*?%s\) %s\('%(m.group(1),m.group(2)); short=m.group(1)+'.'+m.group(2)
    else: pat=r'^func %s\('%re.escape(rest); short=rest
    for f in sorted(os.listdir('/repo/'+d)):
        if f.endswith('.go') and not f.endswith('_test.go') and f!='verif_contracts.go':
            if re.search(pat,open(f'/repo/{d}/{f}').read(),re.M): return d+'/'+f,short
    return None
random.seed(a.seed)
work=tempfile.mkdtemp(prefix='govc-mutants-',dir='/tmp')
MUT=work+'/mutate'
subprocess.run(['go','build','-o',MUT,'.'],cwd='/verif/tools/mutate',env=ENV,check=True)
replay=None
if a.replay:
    replay=set()
    for l in open(a.replay):
        f=[x.strip() for x in l.split(' | ')]
        if len(f)>=5 and not f[4].startswith('killed') and f[4]!='does-not-compile': replay.add(' | '.join(f[:4]))
jobs=[]
for fn in sorted(fnprops):
    if a.only and not re.search(a.only,fn): continue
    loc=locate(fn)
    if not loc: continue
    path,short=loc
    out=f'{work}/gen/{fn.replace("/","_")}'
    n=int(subprocess.run([MUT,'-file','/repo/'+path,'-funcs',short,'-out',out],capture_output=True,text=True).stdout.strip() or 0)
    ids=list(range(n)); random.shuffle(ids)
    if replay is not None:
        for i in range(n):
            d=open(f'{out}/{i}.txt').read().strip()
            if d in replay: jobs.append((fn,path,f'{out}/{i}.go',d))
        continue
    for i in sorted(ids[:a.per]):
        jobs.append((fn,path,f'{out}/{i}.go',open(f'{out}/{i}.txt').read().strip()))
if replay is None:
    random.shuffle(jobs); jobs=jobs[:a.n]
def run(job):
    fn,path,mfile,desc=job
    sc=tempfile.mkdtemp(prefix='govc-mut-',dir='/tmp'); ev=tempfile.mkdtemp(prefix='govc-mut-ev-',dir='/tmp')
    try:
        subprocess.run(['rsync','-a','--exclude','.git','/repo/',sc+'/'],check=True)
        shutil.copy(mfile,f'{sc}/{path}')
        b=subprocess.run(['go','build','./...'],cwd=sc,env=ENV,capture_output=True,text=True)
        if b.returncode!=0: return f'{desc} | does-not-compile'
        for pid in fnprops[fn]:
            r=subprocess.run(['/verif/bin/govc','check','--tier','quick',pid],cwd='/verif',env=dict(ENV,GOVC_REPO=sc,GOVC_EVIDENCE=ev),capture_output=True,text=True)
            if r.returncode!=0:
                m=re.search(r'failed obligation: (\S+)',r.stdout)
                return f'{desc} | killed by {pid} | {m.group(1) if m else "?"}'
        if a.notests: return f'{desc} | survived-checks ({",".join(fnprops[fn])})'
        t=subprocess.run(['go','test','-vet=off','-count=1','-timeout','120s','./...'],cwd=sc,env=ENV,capture_output=True,text=True)
        bad=[l.split()[1] for l in t.stdout.splitlines() if l.startswith('FAIL\t') or l.startswith('--- FAIL')]
        if t.returncode!=0: return f'{desc} | tests-only ({",".join(fnprops[fn])}) | {" ".join(bad[:3])}'
        return f'{desc} | survived-both ({",".join(fnprops[fn])})'
    finally:
        shutil.rmtree(sc,ignore_errors=True); shutil.rmtree(ev,ignore_errors=True)
with ThreadPoolExecutor(a.j) as ex:
    for line in ex.map(run,jobs):
        print(line,flush=True)
shutil.rmtree(work,ignore_errors=True)
