#!/bin/bash
# Runs behaviour-preserving changes (patch files) against ALL registered checks on scratch copies:
# any exit != 0 is a false alarm. usage: tools/benign.sh <govc-binary> <patch>...   (parallel 4)
BIN=$1; shift
one() {
  BIN=$1; pf=$2
  scratch=$(mktemp -d /tmp/govc-ben-XXXXXX); ev=$(mktemp -d /tmp/govc-ben-ev-XXXXXX)
  rsync -a --exclude .git /repo/ $scratch/
  if ! patch -p1 -s -d $scratch -i $pf >/dev/null 2>&1; then echo "$pf | patch-does-not-apply"; rm -rf $scratch $ev; return; fi
  bad=""
  for id in $(python3 -c "import json;print(' '.join(c['property_id'] for c in json.load(open('/verif/MANIFEST.json'))['checks']))"); do
    out=$(GOVC_REPO=$scratch GOVC_EVIDENCE=$ev $BIN check --tier quick $id 2>&1); rc=$?
    if [ $rc -ne 0 ]; then first=$(echo "$out" | grep "failed obligation" | head -1 | sed 's/.*failed obligation: //' | cut -c1-220); bad="$bad\n    $id: $first"; fi
  done
  if [ -z "$bad" ]; then echo "$pf | quiet"; else echo -e "$pf | FALSE ALARM$bad"; fi
  rm -rf $scratch $ev
}
export -f one
printf "%s\n" "$@" | xargs -P 4 -I{} bash -c "one $BIN {}"
