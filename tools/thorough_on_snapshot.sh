#!/bin/bash
# NOTE: expects a snapshot made with: rsync -a /repo/ /tmp/snap/repo/ ; rsync -a --exclude .git --exclude /govc/ /verif/ /tmp/snap/verif/
# thorough tier of every property on a snapshot of /repo and /verif (so that the live trees stay editable)
cd /tmp/snap/verif
for id in $(python3 -c "import json;print(' '.join(c['property_id'] for c in json.load(open('/tmp/snap/verif/MANIFEST.json'))['checks']))"); do
  t0=$(date +%s)
  out=$(GOVC_REPO=/tmp/snap/repo GOVC_VERIF=/tmp/snap/verif GOVC_EVIDENCE=/tmp/snap/ev ./bin/govc check --tier thorough $id 2>&1); rc=$?
  t1=$(date +%s)
  echo "=== $id exit=$rc wall=$((t1-t0))s"
  echo "$out" | grep -E "SELFTEST|must-|DISAGREE|VIOLATION|\[thorough\]" | cut -c1-260
done
