#!/usr/bin/env python3
"""matrix_meta.py <matrix.log>: record in each seeded/<id>/meta.json which checks caught the change
(detected_by: first failing obligation per check, caught_by: checks that exited 1) and print the DESIGN table."""
import sys, json, collections
rows=collections.OrderedDict()
for l in open(sys.argv[1]):
    f=[x.strip() for x in l.split('|')]
    if len(f)<3: continue
    sd,p=f[0],f[1]
    rows.setdefault(sd,{})[p]=f[2:]
for sd,r in sorted(rows.items()):
    mp=f"/verif/seeded/{sd}/meta.json"; m=json.load(open(mp))
    det={}; caught=[]
    for p,v in r.items():
        if v[0].startswith("exit=1"):
            caught.append(p); det[p]=v[2] if len(v)>2 else ""
        else: det[p]=None
    m["detected_by"]=det; m["caught_by"]=caught
    json.dump(m,open(mp,"w"),indent=1)
    own=sd.split('-')[0]
    print(f"| {sd} | {', '.join(caught) or '—'} | {det.get(own) or '—'} |")
