#!/bin/bash
# Confirms seeded changes independently of the agents that wrote them: scratch worktree of /repo HEAD (removed afterwards),
# demo passes on the unchanged tree, patch applies, build ok, full suite ok, demo fails with the change.
# usage: MUTDIRS="<dir with patch.diff + zz_demo_test.go> ..." tools/confirm_seeds.sh
# verify seeded mutations independently in a scratch worktree
export GOFLAGS=-mod=mod GOPROXY=off GOSUMDB=off GOTOOLCHAIN=local
WT=/tmp/vw
rm -rf $WT; git -C /repo worktree prune; git -C /repo worktree add -q --detach $WT HEAD || exit 1
declare -A DIR=([scheduler]=pkg/scheduler [config]=internal/config [runner]=pkg/runner [main]=cmd/taskctl [utils]=pkg/utils [executor]=pkg/executor [output]=pkg/output [watch]=internal/watch [task]=pkg/task [variables]=pkg/variables)
cd $WT && go build ./... && go test -vet=off -count=1 -run '^$' ./... >/dev/null 2>&1
for d in ${MUTDIRS:-/tmp/mut3/C*/out/m*}; do
  id=$(echo $d | sed -E 's#/tmp/mut3/(C[0-9]+[ab])/out/(m[0-9])#\1-\2#')
  pkg=$(head -1 $d/zz_demo_test.go | awk '{print $2}'); dest=${DIR[$pkg]}
  cd $WT && git checkout -q -- . && git clean -fdq
  cp $d/zz_demo_test.go $WT/$dest/zz_demo_test.go
  base=$(go test -vet=off -count=1 -timeout 120s -run 'TestZZ|TestDemo|Test_ZZ|TestSeed' ./$dest/ 2>&1 | tail -1)
  rm -f $WT/$dest/zz_demo_test.go
  if ! git apply $d/patch.diff 2>/tmp/vw_scripts/apply.err; then echo "$id APPLY-FAILED $(head -1 /tmp/vw_scripts/apply.err)"; continue; fi
  build=$(go build ./... 2>&1 | tail -1); [ -z "$build" ] && build=ok
  suite=$(go test -vet=off -count=1 -timeout 120s ./... 2>&1 | grep -v "no test files" | grep -vc "^ok")
  cp $d/zz_demo_test.go $WT/$dest/zz_demo_test.go
  mut=$(go test -vet=off -count=1 -timeout 120s -run 'TestZZ|TestDemo|Test_ZZ|TestSeed' ./$dest/ 2>&1 | tail -1)
  echo "$id | dest=$dest | base: $base | build: $build | suite-nonok-lines: $suite | mutated: $mut"
done
cd / && git -C /repo worktree remove --force $WT
