#!/bin/bash
# usage: tools/reverttest.sh <commit> <property>... — reverts a fix commit in the working tree, runs the checks, restores.
c=$1; shift
cd /repo || exit 2
if [ -n "$(git status --porcelain)" ]; then echo "repo not clean"; exit 2; fi
trap 'git -C /repo checkout -q -- . ; git -C /repo clean -fdq' EXIT
git revert --no-commit $c >/dev/null 2>&1 || { echo "revert failed"; git revert --abort 2>/dev/null; exit 2; }
git reset -q
cd /verif
for p in "$@"; do
  out=$(GOVC_EVIDENCE=/tmp/govc-dev-evidence ./bin/govc check --tier quick $p 2>&1); rc=$?
  echo "== revert $c vs $p: exit=$rc"
  echo "$out" | grep -E "VIOLATION|failed obligation" | head -6
done
