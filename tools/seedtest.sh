#!/bin/bash
# usage: tools/seedtest.sh <seed-id> <property>...   — applies a seeded change to /repo, runs the checks, reverts.
seed=$1; shift
cd /repo || exit 2
if [ -n "$(git status --porcelain)" ]; then echo "repo not clean"; exit 2; fi
trap 'git -C /repo checkout -q -- . ; git -C /repo clean -fdq' EXIT
git apply /verif/seeded/$seed/patch.diff || { echo "patch does not apply"; exit 2; }
cd /verif
for p in "$@"; do
  out=$(GOVC_EVIDENCE=/tmp/govc-dev-evidence ./bin/govc check --tier quick $p 2>&1); rc=$?
  echo "== $seed vs $p: exit=$rc"
  echo "$out" | grep -E "VIOLATION|failed obligation|KNOWN|tool error" | head -12
done
