#!/usr/bin/env python3
"""benign_rel.py [-j PAR] [patch...]: behaviour-preserving changes against the checks they can reach.
A check can be reached by a change only if the change touches a file that defines one of the functions listed
for the property in props.json (a VC is generated from the function's own body and from contracts; small callees
inlined from other files are not considered here — the thorough tier's must-pass corpus does consider them).
Each (change, property) pair runs the quick check on a scratch copy (outside /repo and /verif, removed
afterwards); any exit != 0 is reported. One line per change."""
import json, os, re, subprocess, sys, tempfile, shutil, argparse, glob
from concurrent.futures import ThreadPoolExecutor
ap=argparse.ArgumentParser(); ap.add_argument('-j',type=int,default=4); ap.add_argument('patches',nargs='*')
a=ap.parse_args()
DIRS={'scheduler':'pkg/scheduler','runner':'pkg/runner','executor':'pkg/executor','variables':'pkg/variables','output':'pkg/output','utils':'pkg/utils','config':'internal/config','watch':'internal/watch','main':'cmd/taskctl','task':'pkg/task'}
props=json.load(open('/verif/props.json'))
claimed=[c['property_id'] for c in json.load(open('/verif/MANIFEST.json'))['checks']]
def locate(fn):
    pkg,rest=fn.split('.',1); d=DIRS.get(pkg)
    if not d: return None
    rest=re.sub(r'(\$\d+)+$','',rest)
    m=re.match(r'\(\*?(\w+)\)\.(\w+)$',rest)
    pat=(r'^func \(\w+ \*?%s\) %s\('%(m.group(1),m.group(2))) if m else (r'^func %s\('%re.escape(rest))
    for f in sorted(os.listdir('/repo/'+d)):
        if f.endswith('.go') and not f.endswith('_test.go') and f!='verif_contracts.go':
            if re.search(pat,open(f'/repo/{d}/{f}').read(),re.M): return d+'/'+f
    return None
fileprops={}
for pid in claimed:
    for f in (props[pid].get('functions') or [])+(props[pid].get('sweep') or []):
        loc=locate(f.split('|')[0])
        if loc: fileprops.setdefault(loc,set()).add(pid)
patches=a.patches or sorted(glob.glob('/verif/benign/*/patch.diff'))
def one(pf):
    touched=set(re.findall(r'^(?:\+\+\+ b/|--- a/)(\S+)',open(pf).read(),re.M))
    pids=sorted(set().union(*[fileprops.get(t,set()) for t in touched])) if touched else []
    # a new file in a package: every property with a function in that package
    for t in touched:
        if not os.path.exists('/repo/'+t):
            for f,ps in fileprops.items():
                if os.path.dirname(f)==os.path.dirname(t): pids=sorted(set(pids)|ps)
    sc=tempfile.mkdtemp(prefix='govc-ben-',dir='/tmp'); ev=tempfile.mkdtemp(prefix='govc-ben-ev-',dir='/tmp')
    try:
        subprocess.run(['rsync','-a','--exclude','.git','/repo/',sc+'/'],check=True)
        if subprocess.run(['patch','-p1','-s','-d',sc,'-i',pf],capture_output=True).returncode!=0: return f'{pf} | patch-does-not-apply'
        bad=[]
        for pid in pids:
            r=subprocess.run(['/verif/bin/govc','check','--tier','quick',pid],cwd='/verif',env=dict(os.environ,GOVC_REPO=sc,GOVC_EVIDENCE=ev),capture_output=True,text=True)
            if r.returncode!=0:
                m=re.search(r'failed obligation: (.*)',r.stdout); bad.append(f'{pid}: {(m.group(1) if m else "?")[:200]}')
        return f'{pf} | {"quiet" if not bad else "ALARM"} | checks: {",".join(pids)}'+''.join('\n    '+b for b in bad)
    finally:
        shutil.rmtree(sc,ignore_errors=True); shutil.rmtree(ev,ignore_errors=True)
with ThreadPoolExecutor(a.j) as ex:
    for line in ex.map(one,patches): print(line,flush=True)
