#!/usr/bin/env python3
"""file_seed.py <verify-log> [<src-root> [<offset>]] : file confirmed mutations from <src-root>/<id>/out/m<i>
(default /tmp/mut) under /verif/seeded/<id>-m<i+offset>/.
A mutation is filed only if my own scratch-worktree confirmation (verify_mut.sh log line) shows:
demo ok on the unchanged tree, build ok, suite clean, demo FAIL with the change."""
import sys, os, json, re, shutil, subprocess
head = subprocess.check_output(["git","-C","/repo","rev-parse","--short","HEAD"]).decode().strip()
ROOT = sys.argv[2] if len(sys.argv) > 2 else "/tmp/mut"
OFF = int(sys.argv[3]) if len(sys.argv) > 3 else 0
for line in open(sys.argv[1]):
    if '|' not in line: continue
    parts=[p.strip() for p in line.split('|')]
    sid=parts[0]; prop,m=sid.split('-')
    d=dict(p.split(':',1) for p in parts[1:] if ':' in p)
    dest=parts[1].split('=')[1]
    base=d['base'].strip(); build=d['build'].strip(); suite=d['suite-nonok-lines'].strip(); mut=d['mutated'].strip()
    ok = base.startswith('ok') and build=='ok' and suite=='0' and 'FAIL' in mut
    if not ok:
        print("NOT CONFIRMED", sid, line.strip()); continue
    src=f"{ROOT}/{prop}/out/{m}"; sid=f"{prop}-m{int(m[1:])+OFF}"; dst=f"/verif/seeded/{sid}"
    os.makedirs(dst,exist_ok=True)
    shutil.copy(src+"/patch.diff",dst+"/patch.diff")
    shutil.copy(src+"/zz_demo_test.go",dst+"/zz_demo_test.go.txt")
    if os.path.exists(src+"/notes.md"): shutil.copy(src+"/notes.md",dst+"/notes.md")
    meta={"id":sid,"property":prop,
      "source":f"independent sub-agent given only the property text and a scratch worktree of /repo (fix: commits, no contracts)",
      "breaks":prop,
      "demo":f"zz_demo_test.go.txt (copy as {dest}/zz_demo_test.go; go test -vet=off -count=1 -timeout 120s -run 'TestZZ|TestDemo' ./{dest}/)",
      "needs_to_manifest":"see notes.md (agent's description)",
      "confirmed_by_me":{"how":f"scratch worktree /tmp/vw of /repo {head}: demo on unchanged tree, git apply patch.diff, go build ./..., full suite, demo again",
        "demo_on_unchanged_tree":"base: "+base,"build_with_change":"build: "+build,
        "suite_non_ok_lines_with_change":"suite-nonok-lines: "+suite,"demo_with_change":"mutated: "+mut},
      "detected_by":{},"caught_by":[]}
    json.dump(meta,open(dst+"/meta.json","w"),indent=1)
    print("filed",sid)
