// mutate: enumerates small syntactic mutants (classic mutation operators) inside named functions of a Go
// source file and writes one mutated copy of the file per mutant. Used by tools/mutants.sh to measure how
// many compiling, test-passing one-token changes of the functions under contract the checks notice.
//
//	usage: mutate -file <path.go> -funcs 'Name1,Recv.Name2,...' -out <dir>
//
// Output: <dir>/<n>.go (the whole mutated file) and <dir>/<n>.txt (function, line, operator, before -> after).
// Mutations are textual at AST positions (no reformatting), so every other line of the file is unchanged.
package main

import (
	"flag"
	"fmt"
	"go/ast"
	"go/parser"
	"go/token"
	"os"
	"path/filepath"
	"strings"
)

type edit struct {
	from, to int
	text     string
	fn       string
	op       string
	line     int
}

func main() {
	file := flag.String("file", "", "")
	funcs := flag.String("funcs", "", "")
	out := flag.String("out", "", "")
	flag.Parse()
	src, err := os.ReadFile(*file)
	if err != nil {
		panic(err)
	}
	fset := token.NewFileSet()
	f, err := parser.ParseFile(fset, *file, src, parser.ParseComments)
	if err != nil {
		panic(err)
	}
	want := map[string]bool{}
	for _, n := range strings.Split(*funcs, ",") {
		if n != "" {
			want[n] = true
		}
	}
	off := func(p token.Pos) int { return fset.Position(p).Offset }
	var edits []edit
	for _, d := range f.Decls {
		fd, ok := d.(*ast.FuncDecl)
		if !ok || fd.Body == nil {
			continue
		}
		name := fd.Name.Name
		if fd.Recv != nil && len(fd.Recv.List) > 0 {
			t := fd.Recv.List[0].Type
			if s, ok := t.(*ast.StarExpr); ok {
				t = s.X
			}
			if id, ok := t.(*ast.Ident); ok {
				name = id.Name + "." + name
			}
		}
		if len(want) > 0 && !want[name] {
			continue
		}
		add := func(from, to token.Pos, text, op string) {
			edits = append(edits, edit{off(from), off(to), text, name, op, fset.Position(from).Line})
		}
		errResult := false
		if fd.Type.Results != nil {
			for _, r := range fd.Type.Results.List {
				if id, ok := r.Type.(*ast.Ident); ok && id.Name == "error" {
					errResult = true
				}
			}
		}
		ast.Inspect(fd.Body, func(n ast.Node) bool {
			switch x := n.(type) {
			case *ast.FuncLit:
				// closures are part of the function (goroutine bodies, deferred functions)
				return true
			case *ast.IfStmt:
				// a bare comparison or negation is negated by the operator / drop-not mutants already
				simple := false
				if b, ok := x.Cond.(*ast.BinaryExpr); ok && (b.Op == token.EQL || b.Op == token.NEQ) {
					simple = true
				}
				if u, ok := x.Cond.(*ast.UnaryExpr); ok && u.Op == token.NOT {
					simple = true
				}
				if !simple {
					c := string(src[off(x.Cond.Pos()):off(x.Cond.End())])
					add(x.Cond.Pos(), x.Cond.End(), "!("+c+")", "negate-condition")
				}
			case *ast.ForStmt:
				if x.Cond != nil {
					if b, ok := x.Cond.(*ast.BinaryExpr); ok {
						if r, ok := swapOp[b.Op]; ok {
							add(b.OpPos, b.OpPos+token.Pos(len(b.Op.String())), r, "loop-bound "+b.Op.String()+"->"+r)
						}
					}
				}
			case *ast.BinaryExpr:
				if r, ok := swapOp[x.Op]; ok {
					add(x.OpPos, x.OpPos+token.Pos(len(x.Op.String())), r, "operator "+x.Op.String()+"->"+r)
				}
			case *ast.ExprStmt:
				if _, ok := x.X.(*ast.CallExpr); ok {
					add(x.Pos(), x.End(), "", "delete-call")
				}
			case *ast.DeferStmt:
				add(x.Pos(), x.End(), "", "delete-defer")
			case *ast.AssignStmt:
				if x.Tok == token.ASSIGN && len(x.Lhs) == 1 {
					switch x.Lhs[0].(type) {
					case *ast.SelectorExpr, *ast.IndexExpr:
						add(x.Pos(), x.End(), "", "delete-store")
					}
				}
			case *ast.ReturnStmt:
				if errResult && len(x.Results) > 0 {
					last := x.Results[len(x.Results)-1]
					if id, ok := last.(*ast.Ident); ok && id.Name != "nil" {
						add(last.Pos(), last.End(), "nil", "return-nil-error")
					}
				}
				for _, r := range x.Results {
					if id, ok := r.(*ast.Ident); ok && (id.Name == "true" || id.Name == "false") {
						add(id.Pos(), id.End(), map[string]string{"true": "false", "false": "true"}[id.Name], "flip-bool")
					}
				}
			case *ast.BranchStmt:
				if x.Tok == token.CONTINUE && x.Label == nil {
					add(x.Pos(), x.End(), "break", "continue->break")
				}
			case *ast.UnaryExpr:
				if x.Op == token.NOT {
					add(x.OpPos, x.OpPos+1, "", "drop-not")
				}
			}
			return true
		})
	}
	os.MkdirAll(*out, 0o755)
	for i, e := range edits {
		m := string(src[:e.from]) + e.text + string(src[e.to:])
		os.WriteFile(filepath.Join(*out, fmt.Sprintf("%d.go", i)), []byte(m), 0o644)
		before := strings.ReplaceAll(string(src[e.from:e.to]), "\n", " ")
		if len(before) > 100 {
			before = before[:100] + "…"
		}
		os.WriteFile(filepath.Join(*out, fmt.Sprintf("%d.txt", i)), []byte(fmt.Sprintf("%s | %s:%d | %s | %s -> %s\n", e.fn, filepath.Base(*file), e.line, e.op, before, e.text)), 0o644)
	}
	fmt.Println(len(edits))
}

var swapOp = map[token.Token]string{
	token.EQL: "!=", token.NEQ: "==", token.LSS: "<=", token.LEQ: "<", token.GTR: ">=", token.GEQ: ">",
	token.LAND: "||", token.LOR: "&&", token.ADD: "-", token.SUB: "+",
}
