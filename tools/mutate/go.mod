module mutate

go 1.21
