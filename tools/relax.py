#!/usr/bin/env python3
"""Debug aid: strip quantified sub-formulas (replace by true) from a failing VC and ask z3 for a
model of the ground part, printing the values of the given terms. A model that violates a fact one
expected to hold points at a missing assumption / invariant."""
import sys,subprocess,re
def strip_forall(l):
    for q in ('(forall ','(exists '):
        while True:
            k=l.find(q)
            if k<0: break
            d=0;j=k
            while True:
                if l[j]=='(': d+=1
                elif l[j]==')':
                    d-=1
                    if d==0: break
                j+=1
            l=l[:k]+'true'+l[j+1:]
    return l
f=sys.argv[1]; terms=sys.argv[2:]
out=[]
for l in open(f).read().split('\n'):
    if l.startswith('(check-sat') or l.startswith('(get-'): continue
    if l.startswith('(assert') and ('forall' in l or 'exists' in l):
        if 'sidx s i' in l: out.append(l); continue
        l=strip_forall(l)
    out.append(l)
out.append('(check-sat)')
if terms: out.append('(get-value (%s))'%' '.join(terms))
open('/tmp/relax.smt2','w').write('\n'.join(out))
print(subprocess.run(['z3-new','-T:20','/tmp/relax.smt2'],capture_output=True,text=True).stdout[:6000])
