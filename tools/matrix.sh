#!/bin/bash
# Runs every seeded change against the checks of the property it targets plus closely related ones,
# each on its own scratch copy of /repo's working tree (outside /repo and /verif, removed afterwards).
# usage: [MATRIX_ONLY=<regex over seed ids>] [MATRIX_OWN=1] tools/matrix.sh [parallelism]   -> one line per (change, check) on stdout
cd /verif
declare -A REL=([C01]="C01 C02 C03 C05" [C02]="C01 C02 C03 C07" [C03]="C01 C02 C03 C04" [C05]="C05 C01 C18" [C06]="C06 C07" [C07]="C07 C02 C06" [C08]="C08 C18 C09" [C09]="C09 C06" [C10]="C10 C06 C07" [C14]="C14" [C15]="C15 C17" [C17]="C17 C15" [C18]="C18 C15" [C04]="C04 C02 C03" [C11]="C11 C06 C07" [C13]="C13 C06 C07" [C19]="C19" [C20]="C20" [C12]="C12 C13 C06")
one() {
  sd=$1; p=$2
  scratch=$(mktemp -d /tmp/govc-matrix-XXXXXX); ev=$(mktemp -d /tmp/govc-matrix-ev-XXXXXX)
  rsync -a --exclude .git /repo/ $scratch/
  if ! patch -p1 -s -d $scratch -i /verif/seeded/$sd/patch.diff >/dev/null 2>&1; then echo "$sd | $p | patch-does-not-apply"; rm -rf $scratch $ev; return; fi
  out=$(GOVC_REPO=$scratch GOVC_EVIDENCE=$ev /verif/bin/govc check --tier quick $p 2>&1); rc=$?
  nv=$(echo "$out" | grep -c "^VIOLATION")
  nw=$(echo "$out" | grep "^VIOLATION" | grep -vc "no-failing-input-found")
  first=$(echo "$out" | grep "failed obligation" | head -1 | sed 's/.*failed obligation: //' | cut -d' ' -f1)
  echo "$sd | $p | exit=$rc | violations=$nv witness=$nw | $first"
  rm -rf $scratch $ev
}
export -f one
for d in seeded/*/; do
  sd=$(basename $d); prop=${sd%%-*}
  [ -f $d/patch.diff ] || continue
  if [ -n "$MATRIX_ONLY" ] && ! echo "$sd" | grep -Eq -- "$MATRIX_ONLY"; then continue; fi
  if [ -n "$MATRIX_OWN" ]; then echo "$sd $prop"; continue; fi   # MATRIX_OWN=1: only the check of the property the change was written against
  for p in ${REL[$prop]}; do echo "$sd $p"; done
done | xargs -P ${1:-4} -L 1 bash -c 'one $0 $1'
