#!/bin/bash
# Confirms behaviour-preserving changes: scratch copy of /repo (removed afterwards), patch applies, build ok, full suite ok.
# usage: [BENDIRS="<dirs>"] tools/confirm_benign.sh
export GOFLAGS=-mod=mod GOPROXY=off GOSUMDB=off GOTOOLCHAIN=local
S=/tmp/vwb; rm -rf $S; rsync -a --exclude .git /repo/ $S/
cd $S && go build ./... && go test -vet=off -count=1 -run '^$' ./... >/dev/null 2>&1
for d in ${BENDIRS:-/verif/benign/*-b*/}; do
  id=$(basename $d)
  rsync -a --delete --exclude .git /repo/ $S/
  if ! patch -p1 -s -d $S -i $d/patch.diff >/dev/null 2>&1; then echo "$id APPLY-FAILED"; continue; fi
  cd $S; build=$(go build ./... 2>&1 | tail -1); [ -z "$build" ] && build=ok
  suite=$(go test -vet=off -count=1 -timeout 120s ./... 2>&1 | grep -v "no test files" | grep -vc "^ok")
  echo "$id | build: $build | suite-nonok-lines: $suite"
done
cd /; rm -rf $S
