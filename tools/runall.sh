#!/bin/bash
# Runs every registered check on the current tree (regenerates all evidence files). Exit 1 if any alarms.
cd /verif || exit 2
rc=0
for id in $(python3 -c "import json;print(' '.join(c['property_id'] for c in json.load(open('/verif/MANIFEST.json'))['checks']))"); do
  ./bin/govc check --tier ${1:-quick} $id | tail -1 || rc=1
  [ ${PIPESTATUS[0]} -ne 0 ] && rc=1
done
exit $rc
