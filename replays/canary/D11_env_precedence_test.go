package executor
import ("testing";"context";"os";"strings";"github.com/taskctl/taskctl/pkg/variables")
func TestD11JobEnvWins(t *testing.T){
	for _, parent := range []string{"zzz","000"} {
		os.Setenv("D11X", parent); os.Setenv("D11KEEP","keep")
		e,err := NewDefaultExecutor(nil,nil,nil); if err!=nil {t.Fatal(err)}
		j := NewJobFromCommand("echo $D11X $D11KEEP"); j.Env = variables.FromMap(map[string]string{"D11X":"mmm"})
		out,err := e.Execute(context.Background(), j); if err!=nil {t.Fatal(err)}
		if strings.TrimSpace(string(out)) != "mmm keep" { t.Errorf("parent=%s: got %q", parent, out) }
	}
}
