package config
import "testing"
func TestD9UnknownDep(t *testing.T){ d:=t.TempDir(); wr(t,d,"tasks.yaml","tasks:\n  t:\n    command: ['true']\npipelines:\n  p:\n    - task: t\n      depends_on: [zzz]\n"); _,err:=loadIn(t,d,"tasks.yaml"); if err==nil {t.Error("dangling depends_on accepted")}; t.Log(err)
 wr(t,d,"tasks.yaml","tasks:\n  t:\n    command: ['true']\npipelines:\n  p:\n    - task: t\n      depends_on: [later]\n    - name: later\n      task: t\n"); _,err=loadIn(t,d,"tasks.yaml"); if err!=nil {t.Error("forward reference rejected:",err)} }
