package output
import ("testing";"bytes";"github.com/taskctl/taskctl/pkg/task")
func TestD16FinishWithoutStart(t *testing.T){
	base = nil
	var b bytes.Buffer
	o, err := NewTaskOutput(&task.Task{Name:"t"}, FormatCockpit, &b, &b); if err != nil { t.Fatal(err) }
	if err := o.Finish(); err != nil { t.Fatal(err) }
	base = nil
}
