package output
import ("testing";"time";"github.com/taskctl/taskctl/pkg/task")
func TestD20CockpitNoDeadlock(t *testing.T){
	old := frame; frame = 200 * time.Microsecond; defer func(){ frame = old }()
	base = nil
	b := safebuffer{}
	ch := make(chan bool)
	done := make(chan struct{})
	go func(){
		for i := 0; i < 300; i++ {
			dec := newCockpitOutputWriter(&task.Task{Name:"t"}, &b, ch)
			dec.WriteHeader(); time.Sleep(150*time.Microsecond); dec.WriteFooter()
		}
		close(done)
	}()
	select { case <-done: case <-time.After(20*time.Second): t.Fatal("cockpit deadlocked (remove holds b.mu while stopping the spinner)") }
	close(ch); base = nil
}
