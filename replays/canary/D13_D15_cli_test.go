package main
import ("testing";"io/ioutil";"path/filepath";"os";"strings")
func TestD13FirstDash(t *testing.T){
	d:=t.TempDir(); f:=filepath.Join(d,"t.yaml"); ioutil.WriteFile(f,[]byte("tasks:\n  t:\n    command: ['echo args=[{{ .Args }}]']\n"),0644)
	app := makeApp()
	runAppTest(app, appTest{args: []string{"","--raw","-c",f,"t","--","x","--","y"}, exactOutput:"args=[x -- y]\n"}, t)
}
func TestD15DownOnFailure(t *testing.T){
	d:=t.TempDir(); f:=filepath.Join(d,"t.yaml"); mark:=filepath.Join(d,"down.mark")
	ioutil.WriteFile(f,[]byte("contexts:\n  c:\n    down: ['touch "+mark+"']\ntasks:\n  t:\n    context: c\n    command: ['false']\npipelines:\n  p:\n    - task: t\n"),0644)
	for _, target := range []string{"t","p"} {
		os.Remove(mark)
		app := makeApp()
		err := app.Run([]string{"","--raw","-c",f,target})
		if err == nil { t.Errorf("%s: expected failure", target) }
		if _, serr := os.Stat(mark); serr != nil { t.Errorf("%s: down did not run after failing target (%v)", target, strings.TrimSpace(serr.Error())) }
	}
}
