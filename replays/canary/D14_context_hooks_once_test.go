package runner
import ("testing";"io/ioutil";"path/filepath";"strings";"bytes"
 "github.com/taskctl/taskctl/pkg/task";"github.com/taskctl/taskctl/pkg/variables")
func TestD14ContextHooksOnce(t *testing.T){
	d := t.TempDir(); log := filepath.Join(d,"log")
	c := NewExecutionContext(nil, d, variables.NewVariables(), []string{"echo up >> "+log}, []string{"echo down >> "+log}, []string{"echo cbefore >> "+log}, []string{"echo cafter >> "+log})
	r, err := NewTaskRunner(WithContexts(map[string]*ExecutionContext{"c": c}), WithVariables(variables.FromMap(map[string]string{"Args":""}))); if err != nil { t.Fatal(err) }
	var out bytes.Buffer; r.Stdout=&out; r.Stderr=&out
	tk := task.FromCommands("echo cmd >> "+log); tk.Name="t"; tk.Context="c"; tk.Condition="true"; tk.Before=[]string{"echo tbefore >> "+log}; tk.After=[]string{"echo tafter >> "+log}
	if err := r.Run(tk); err != nil { t.Fatal(err) }
	r.Finish()
	b,_ := ioutil.ReadFile(log); got := strings.Join(strings.Fields(string(b))," ")
	want := "up cbefore tbefore cmd tafter cafter down"
	if got != want { t.Errorf("got  %q\nwant %q", got, want) }
}
