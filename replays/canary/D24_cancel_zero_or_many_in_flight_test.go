package runner

import (
	"testing"
	"time"

	"github.com/taskctl/taskctl/pkg/task"
)

// C12: Cancel with ZERO runs in flight must return (it blocked for ever on doneCh), and with
// SEVERAL runs in flight must not crash (every run closed doneCh: "close of closed channel").
func TestD24CancelWithNothingInFlightReturns(t *testing.T) {
	r, err := NewTaskRunner()
	if err != nil {
		t.Fatal(err)
	}
	done := make(chan struct{})
	go func() { r.Cancel(); close(done) }()
	select {
	case <-done:
	case <-time.After(2 * time.Second):
		t.Fatal("Cancel on an idle runner did not return within 2s")
	}
	// once cancellation has completed no task starts any more
	tk := task.FromCommands("echo late")
	tk.Name = "late"
	if err := r.Run(tk); err == nil {
		t.Error("a task started after Cancel reported success")
	}
}

func TestD24CancelWithSeveralRunsInFlightDoesNotPanic(t *testing.T) {
	r, err := NewTaskRunner()
	if err != nil {
		t.Fatal(err)
	}
	panics := make(chan interface{}, 4)
	finished := make(chan error, 4)
	for i := 0; i < 3; i++ {
		tk := task.FromCommands("sleep 5")
		tk.Name = "sleeper"
		go func(tk *task.Task) {
			defer func() {
				if p := recover(); p != nil {
					panics <- p
				}
			}()
			finished <- r.Run(tk)
		}(tk)
	}
	time.Sleep(500 * time.Millisecond)
	cancelled := make(chan struct{})
	go func() { r.Cancel(); close(cancelled) }()
	deadline := time.After(4 * time.Second)
	got := 0
	for got < 3 {
		select {
		case p := <-panics:
			t.Fatalf("a run panicked during cancellation: %v", p)
		case err := <-finished:
			got++
			if err == nil {
				t.Error("an interrupted task reported success")
			}
		case <-deadline:
			t.Fatal("interrupted runs did not return within 4s")
		}
	}
	select {
	case <-cancelled:
	case <-time.After(2 * time.Second):
		t.Fatal("Cancel did not return after all runs had ended")
	}
}
