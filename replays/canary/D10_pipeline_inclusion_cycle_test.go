package config

import (
	"io/ioutil"
	"path/filepath"
	"testing"
)

// A pipeline that includes itself (directly, or through another pipeline) must be rejected when the
// configuration is loaded: scheduling it recurses for ever (C18). Before the fix all three were accepted.
func TestD10PipelineInclusionCycle(t *testing.T) {
	cases := map[string]string{
		"self":    "tasks:\n  t:\n    command: ['true']\npipelines:\n  p:\n    - task: t\n    - pipeline: p\n      name: again\n",
		"mutual":  "tasks:\n  t:\n    command: ['true']\npipelines:\n  a:\n    - pipeline: b\n  b:\n    - task: t\n    - pipeline: a\n      name: back\n",
		"three":   "tasks:\n  t:\n    command: ['true']\npipelines:\n  a:\n    - pipeline: b\n  b:\n    - pipeline: c\n  c:\n    - pipeline: a\n",
	}
	for name, text := range cases {
		d := t.TempDir()
		f := filepath.Join(d, "t.yaml")
		if err := ioutil.WriteFile(f, []byte(text), 0644); err != nil {
			t.Fatal(err)
		}
		cl := NewConfigLoader(NewConfig())
		if _, err := cl.Load(f); err == nil {
			t.Errorf("%s: configuration with an inclusion cycle was accepted", name)
		}
	}
	// nesting without a cycle (a diamond) stays legal
	ok := "tasks:\n  t:\n    command: ['true']\npipelines:\n  a:\n    - pipeline: b\n    - pipeline: c\n  b:\n    - pipeline: d\n  c:\n    - pipeline: d\n  d:\n    - task: t\n"
	d := t.TempDir()
	f := filepath.Join(d, "t.yaml")
	_ = ioutil.WriteFile(f, []byte(ok), 0644)
	cl := NewConfigLoader(NewConfig())
	if _, err := cl.Load(f); err != nil {
		t.Errorf("diamond-shaped inclusion rejected: %v", err)
	}
}
