package config
import "testing"
func TestD21PipelineStageWithDir(t *testing.T){ d:=t.TempDir(); wr(t,d,"tasks.yaml","tasks:\n  t:\n    command: ['true']\npipelines:\n  inner:\n    - task: t\n  outer:\n    - pipeline: inner\n      dir: /tmp\n"); _,err:=loadIn(t,d,"tasks.yaml"); t.Log(err) }
