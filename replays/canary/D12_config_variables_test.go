package config
import "testing"
func TestD12ConfigVariables(t *testing.T){ d:=t.TempDir(); wr(t,d,"tasks.yaml","variables:\n  greet: hello\ntasks:\n  t:\n    command: ['true']\n"); cfg,err:=loadIn(t,d,"tasks.yaml"); if err!=nil {t.Fatal(err)}
 if cfg.Variables.Get("greet") != "hello" { t.Errorf("config variable lost: %v", cfg.Variables.Map()) }
 if !cfg.Variables.Has("TempDir") || !cfg.Variables.Has("Root") { t.Errorf("builtins lost: %v", cfg.Variables.Map()) } }
