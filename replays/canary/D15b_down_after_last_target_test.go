package main

import (
	"io/ioutil"
	"path/filepath"
	"strings"
	"testing"
)

// Two CLI targets sharing a context: `down` must run once, after the last target (C14).
// Before the fix the first target's Finish ran `down`, so the trace read "t1 down t2".
func TestD15bDownAfterLastTarget(t *testing.T) {
	d := t.TempDir()
	f := filepath.Join(d, "t.yaml")
	trace := filepath.Join(d, "trace")
	cfgText := "contexts:\n  c:\n    down: ['echo down >> " + trace + "']\n" +
		"tasks:\n  t1:\n    context: c\n    command: ['echo t1 >> " + trace + "']\n" +
		"  t2:\n    context: c\n    command: ['echo t2 >> " + trace + "']\n" +
		"pipelines:\n  p:\n    - task: t2\n"
	if err := ioutil.WriteFile(f, []byte(cfgText), 0644); err != nil {
		t.Fatal(err)
	}
	for _, args := range [][]string{{"t1", "t2"}, {"run", "t1", "p"}, {"run", "task", "t1", "t2"}} {
		_ = ioutil.WriteFile(trace, nil, 0644)
		app := makeApp()
		if err := app.Run(append([]string{"", "--raw", "-c", f}, args...)); err != nil {
			t.Fatalf("%v: %v", args, err)
		}
		b, _ := ioutil.ReadFile(trace)
		got := strings.Join(strings.Fields(string(b)), " ")
		if got != "t1 t2 down" {
			t.Errorf("%v: trace %q, want \"t1 t2 down\"", args, got)
		}
	}
}
