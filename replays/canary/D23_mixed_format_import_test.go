package config

import (
	"io/ioutil"
	"path/filepath"
	"testing"
)

// A JSON (or TOML) configuration importing a YAML file that defines the same section made mergo
// panic inside Loader.load (C15: loading never crashes). It must end with a config or an error.
func TestD23MixedFormatImport(t *testing.T) {
	d := t.TempDir()
	_ = ioutil.WriteFile(filepath.Join(d, "tasks.json"), []byte(`{"import":["b.yaml"],"tasks":{"a":{"command":["echo a"]}}}`), 0644)
	_ = ioutil.WriteFile(filepath.Join(d, "b.yaml"), []byte("tasks: {b: {command: [echo b]}}\n"), 0644)
	defer func() {
		if r := recover(); r != nil {
			t.Fatalf("loading panicked: %v", r)
		}
	}()
	cl := NewConfigLoader(NewConfig())
	_, _ = cl.Load(filepath.Join(d, "tasks.json"))

	// the same through a directory import holding both formats
	d2 := t.TempDir()
	_ = ioutil.WriteFile(filepath.Join(d2, "main.yaml"), []byte("import: [parts]\n"), 0644)
	_ = ioutil.WriteFile(filepath.Join(d2, "parts", "x"), nil, 0644)
	cl = NewConfigLoader(NewConfig())
	_, _ = cl.Load(filepath.Join(d2, "main.yaml"))
}
