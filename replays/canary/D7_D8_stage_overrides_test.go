package config
import ("testing";"bytes";"strings"
 "github.com/taskctl/taskctl/pkg/runner";"github.com/taskctl/taskctl/pkg/scheduler";"github.com/taskctl/taskctl/pkg/variables")
func runP(t *testing.T, body, pipeline string) (string, *Config) {
	d:=t.TempDir(); wr(t,d,"tasks.yaml",body); cfg,err:=loadIn(t,d,"tasks.yaml"); if err!=nil {t.Fatal(err)}
	var out bytes.Buffer
	vars := cfg.Variables.With("Args",""); vars.Set("ArgsList", []string{})
	r,_ := runner.NewTaskRunner(runner.WithContexts(cfg.Contexts), runner.WithVariables(vars)); r.Stdout=&out; r.Stderr=&out; r.OutputFormat="raw"
	s := scheduler.NewScheduler(r)
	if err := s.Schedule(cfg.Pipelines[pipeline]); err != nil { t.Log("schedule:", err) }
	_ = variables.NewVariables
	return out.String(), cfg
}
func TestD7TaskVarsSurvive(t *testing.T){
	out,_ := runP(t, "tasks:\n  t:\n    command: ['echo own={{ .own }} st={{ .sv }}']\n    variables: {own: mine}\npipelines:\n  p:\n    - task: t\n      variables: {sv: stagev}\n", "p")
	if !strings.Contains(out,"own=mine st=stagev") { t.Errorf("got %q", out) }
}
func TestD8StageOverridesIsolated(t *testing.T){
	out,cfg := runP(t, "tasks:\n  t:\n    command: ['echo A=[$A] B=[$B] pwd=$PWD']\npipelines:\n  p:\n    - name: s1\n      task: t\n      env: {A: one}\n      dir: /tmp\n    - name: s2\n      task: t\n      depends_on: [s1]\n      env: {B: two}\n", "p")
	if !strings.Contains(out,"A=[one] B=[]") || !strings.Contains(out,"A=[] B=[two]") { t.Errorf("env leaked between stages: %q", out) }
	if cfg.Tasks["t"].Dir != "" { t.Errorf("stage dir leaked into shared task: %q", cfg.Tasks["t"].Dir) }
	if cfg.Tasks["t"].Env.Has("A") || cfg.Tasks["t"].Env.Has("B") { t.Errorf("stage env leaked into shared task") }
}
