package runner
import ("testing";"github.com/taskctl/taskctl/pkg/task";"github.com/taskctl/taskctl/pkg/variables")
func TestD22NoCommands(t *testing.T){
	defer func(){ if r:=recover(); r!=nil { t.Fatalf("PANIC: %v", r) } }()
	r, err := NewTaskRunner(WithVariables(variables.FromMap(map[string]string{"Args":""}))); if err != nil { t.Fatal(err) }
	tk := task.FromCommands(); tk.Name="empty"
	err = r.Run(tk); t.Log("err:", err, "errored:", tk.Errored, "exit:", tk.ExitCode)
}
