package scheduler
import "testing"
func TestD1Diamond(t *testing.T) {
	g, _ := NewExecutionGraph()
	for _, s := range []*Stage{{Name:"c",DependsOn:[]string{"a","b"}},{Name:"b",DependsOn:[]string{"a"}},{Name:"a",DependsOn:[]string{"r"}},{Name:"r"}} {
		if err := g.AddStage(s); err != nil { t.Fatalf("stage %s: %v", s.Name, err) }
	}
	g2,_ := NewExecutionGraph()
	if err := g2.AddStage(&Stage{Name:"x",DependsOn:[]string{"x"}}); err == nil { t.Fatal("self loop accepted") }
	g3,_ := NewExecutionGraph()
	g3.AddStage(&Stage{Name:"x",DependsOn:[]string{"y"}})
	if err := g3.AddStage(&Stage{Name:"y",DependsOn:[]string{"x"}}); err == nil { t.Fatal("2-cycle accepted") }
}
