package config
import ("testing";"os";"path/filepath";"io/ioutil")
func wr(t *testing.T, dir, name, body string) string { p:=filepath.Join(dir,name); if err:=ioutil.WriteFile(p,[]byte(body),0644); err!=nil {t.Fatal(err)}; return p }
func loadIn(t *testing.T, dir, file string) (cfg *Config, err error) {
	defer func(){ if r:=recover(); r!=nil { t.Errorf("PANIC: %v", r) } }()
	cl := NewConfigLoader(NewConfig()); cl.dir = dir; cl.homeDir = ""
	return cl.Load(file)
}
func TestD2EnvFileNoEq(t *testing.T){ d:=t.TempDir(); wr(t,d,".env","FOO\nA=b\n"); wr(t,d,"tasks.yaml","tasks:\n  t:\n    command: [\"true\"]\n    env_file: .env\n"); _,err:=loadIn(t,d,"tasks.yaml"); t.Log(err) }
func TestD3EnvFileMissing(t *testing.T){ d:=t.TempDir(); wr(t,d,"tasks.yaml","tasks:\n  t:\n    command: [\"true\"]\n    env_file: nope.env\n"); _,err:=loadIn(t,d,"tasks.yaml"); if err==nil {t.Error("no error")}; t.Log(err) }
func TestD4Empty(t *testing.T){ for i,body := range []string{"tasks:\n  t:\n","contexts:\n  c:\n","pipelines:\n  p:\n    - \n","tasks:\n  t:\n    command: [\"true\"]\nwatchers:\n  w:\n"} { d:=t.TempDir(); wr(t,d,"tasks.yaml",body); _,err:=loadIn(t,d,"tasks.yaml"); t.Log(i,err) } }
func TestD5ImportString(t *testing.T){ for i,body := range []string{"import: other.yaml\n","import:\n  - 5\n","import:\n  - [a]\n", "import:\n  a: b\n"} { d:=t.TempDir(); wr(t,d,"other.yaml","tasks: {}\n"); wr(t,d,"tasks.yaml",body); _,err:=loadIn(t,d,"tasks.yaml"); t.Log(i,err) } }
func TestD6ImportBroken(t *testing.T){ d:=t.TempDir(); wr(t,d,"other.yaml","tasks: [\n"); wr(t,d,"tasks.yaml","import:\n  - other.yaml\ntasks:\n  t:\n    command: [\"true\"]\n"); _,err:=loadIn(t,d,"tasks.yaml"); if err==nil {t.Error("broken import accepted")}; t.Log(err)
  os.Mkdir(filepath.Join(d,"sub"),0755); wr(t,filepath.Join(d,"sub"),"x.yaml","tasks: [\n"); wr(t,d,"tasks.yaml","import:\n  - sub\n"); _,err=loadIn(t,d,"tasks.yaml"); if err==nil {t.Error("broken dir import accepted")}; t.Log(err) }
