package scheduler

// Witness search for failed obligations of checkStatus / AddStage / cycleDfs / Schedule:
// bounded enumeration on the REAL code (never used as evidence of correctness).

import (
	"fmt"
	"sync"
	"testing"
	"time"

	"github.com/taskctl/taskctl/pkg/task"
)

func finishedO(s *Stage) bool {
	return s.Status == StatusDone || s.Status == StatusSkipped || (s.Status == StatusError && s.AllowFailure)
}
func blockingO(s *Stage) bool {
	return s.Status == StatusCanceled || (s.Status == StatusError && !s.AllowFailure)
}

// checkStatus: every combination of 0..2 dependencies x status 0..5 x allow_failure
func TestOracleCheckStatus(t *testing.T) {
	for n := 0; n <= 2; n++ {
		total := 1
		for i := 0; i < n; i++ {
			total *= 12
		}
		for code := 0; code < total; code++ {
			g, _ := NewExecutionGraph()
			var deps []string
			c := code
			var ds []*Stage
			for i := 0; i < n; i++ {
				d := &Stage{Name: fmt.Sprintf("d%d", i), Status: int32(c % 6), AllowFailure: (c/6)%2 == 1}
				c /= 12
				g.AddStage(d)
				deps = append(deps, d.Name)
				ds = append(ds, d)
			}
			s := &Stage{Name: "s", DependsOn: deps}
			g.AddStage(s)
			ready := checkStatus(g, s)
			allFin, someBlock := true, false
			for _, d := range ds {
				allFin = allFin && finishedO(d)
				someBlock = someBlock || blockingO(d)
			}
			desc := fmt.Sprintf("deps=%v", func() (o []string) {
				for _, d := range ds {
					o = append(o, fmt.Sprintf("%d/af=%v", d.Status, d.AllowFailure))
				}
				return
			}())
			if ready && !allFin {
				t.Errorf("WITNESS C01.ready-sound: ready although a dependency is not finished: %s", desc)
			}
			if allFin && !ready {
				t.Errorf("WITNESS C04.ready-complete: not ready although all dependencies are finished: %s", desc)
			}
			if s.Status == StatusCanceled && !someBlock {
				t.Errorf("WITNESS C02.cancel-justified: cancelled without a blocking dependency: %s", desc)
			}
			if someBlock && s.Status != StatusCanceled {
				t.Errorf("WITNESS C02.cancel-complete: blocking dependency but not cancelled: %s", desc)
			}
			if s.Status != StatusWaiting && s.Status != StatusCanceled {
				t.Errorf("WITNESS status: unexpected status %d: %s", s.Status, desc)
			}
		}
	}
}

// AddStage / cycleDfs: every digraph on <= 3 nodes (self-loops included), every declaration order
func TestOracleCycleCheck(t *testing.T) {
	names := []string{"a", "b", "c"}
	perms := [][]int{{0, 1, 2}, {0, 2, 1}, {1, 0, 2}, {1, 2, 0}, {2, 0, 1}, {2, 1, 0}}
	for n := 1; n <= 3; n++ {
		for mask := 0; mask < 1<<(n*n); mask++ {
			dep := func(i, j int) bool { return mask&(1<<(i*n+j)) != 0 } // i depends on j
			// cyclic?
			reach := make([][]bool, n)
			for i := range reach {
				reach[i] = make([]bool, n)
				for j := 0; j < n; j++ {
					reach[i][j] = dep(i, j)
				}
			}
			for k := 0; k < n; k++ {
				for i := 0; i < n; i++ {
					for j := 0; j < n; j++ {
						reach[i][j] = reach[i][j] || (reach[i][k] && reach[k][j])
					}
				}
			}
			cyclic := false
			for i := 0; i < n; i++ {
				cyclic = cyclic || reach[i][i]
			}
			for _, p := range perms {
				ok := true
				for _, x := range p[:0] {
					_ = x
				}
				var order []int
				for _, x := range p {
					if x < n {
						order = append(order, x)
					}
				}
				if len(order) != n {
					ok = false
				}
				if !ok {
					continue
				}
				g, _ := NewExecutionGraph()
				var err error
				for _, i := range order {
					var d []string
					for j := 0; j < n; j++ {
						if dep(i, j) {
							d = append(d, names[j])
						}
					}
					if err = g.AddStage(&Stage{Name: names[i], DependsOn: d}); err != nil {
						break
					}
				}
				if cyclic && err == nil {
					t.Errorf("WITNESS C05 (B): cyclic graph accepted: n=%d mask=%b order=%v", n, mask, order)
				}
				if !cyclic && err != nil {
					t.Errorf("WITNESS C05 (A): acyclic graph rejected: n=%d mask=%b order=%v", n, mask, order)
				}
				if err == nil {
					for i := 0; i < n; i++ {
						var d []string
						for j := 0; j < n; j++ {
							if dep(i, j) {
								d = append(d, names[j])
							}
						}
						if fmt.Sprint(g.To(names[i])) != fmt.Sprint(d) && !(len(d) == 0 && len(g.To(names[i])) == 0) {
							t.Errorf("WITNESS C01/C05 edges: to[%s]=%v, depends_on=%v (mask=%b order=%v)", names[i], g.To(names[i]), d, mask, order)
						}
					}
				}
				if t.Failed() {
					return
				}
			}
		}
	}
}

// a runner whose tasks finish in a scripted order; records starts
type oracleRunner struct {
	mu      sync.Mutex
	started map[string]int
	fail    map[string]bool
	delay   map[string]time.Duration
	g       *ExecutionGraph
	bad     []string
}

func (r *oracleRunner) Run(t *task.Task) error {
	r.mu.Lock()
	r.started[t.Name]++
	st, _ := r.g.Node(t.Name)
	for _, d := range st.DependsOn {
		ds, _ := r.g.Node(d)
		s := ds.ReadStatus()
		if !(s == StatusDone || s == StatusSkipped || (s == StatusError && ds.AllowFailure)) {
			r.bad = append(r.bad, fmt.Sprintf("%s started while %s has status %d", t.Name, d, s))
		}
	}
	r.mu.Unlock()
	time.Sleep(r.delay[t.Name])
	if r.fail[t.Name] {
		return fmt.Errorf("task %s failed", t.Name)
	}
	return nil
}
func (r *oracleRunner) Cancel() {}
func (r *oracleRunner) Finish() {}

// Schedule: diamond with every failure / allow_failure assignment and two completion orders
func TestOracleSchedule(t *testing.T) {
	shape := map[string][]string{"a": nil, "b": {"a"}, "c": {"a"}, "d": {"c", "b"}}
	order := []string{"d", "c", "b", "a"}
	for code := 0; code < 1<<8; code++ {
		for swap := 0; swap < 2; swap++ {
			g, _ := NewExecutionGraph()
			r := &oracleRunner{started: map[string]int{}, fail: map[string]bool{}, delay: map[string]time.Duration{}, g: g}
			for i, n := range []string{"a", "b", "c", "d"} {
				r.fail[n] = code&(1<<(2*i)) != 0
				af := code&(1<<(2*i+1)) != 0
				tk := task.FromCommands("true")
				tk.Name = n
				if err := g.AddStage(&Stage{Name: n, Task: tk, DependsOn: shape[n], AllowFailure: af}); err != nil && n == order[0] {
					t.Fatal(err)
				}
			}
			if swap == 0 {
				r.delay["b"], r.delay["c"] = 1*time.Millisecond, 4*time.Millisecond
			} else {
				r.delay["b"], r.delay["c"] = 4*time.Millisecond, 1*time.Millisecond
			}
			s := NewScheduler(r)
			s.pause = 200 * time.Microsecond
			err := s.Schedule(g)
			desc := fmt.Sprintf("code=%08b swap=%d", code, swap)
			for _, b := range r.bad {
				t.Errorf("WITNESS C01: %s (%s)", b, desc)
			}
			wantErr := false
			for _, n := range []string{"a", "b", "c", "d"} {
				st, _ := g.Node(n)
				blocked := false
				for _, dn := range st.DependsOn {
					ds, _ := g.Node(dn)
					if blockingO(ds) {
						blocked = true
					}
				}
				if r.started[n] > 1 {
					t.Errorf("WITNESS C03: %s executed %d times (%s)", n, r.started[n], desc)
				}
				if blocked && (r.started[n] != 0 || st.Status != StatusCanceled) {
					t.Errorf("WITNESS C02: %s has a blocking dependency but started=%d status=%d (%s)", n, r.started[n], st.Status, desc)
				}
				if !blocked && r.started[n] != 1 {
					t.Errorf("WITNESS C02/C03: %s is eligible but was executed %d times, status %d (%s)", n, r.started[n], st.Status, desc)
				}
				if r.started[n] == 1 && r.fail[n] && !st.AllowFailure {
					wantErr = true
				}
				if st.Status == StatusWaiting || st.Status == StatusRunning {
					t.Errorf("WITNESS C03: %s left in status %d (%s)", n, st.Status, desc)
				}
			}
			if wantErr != (err != nil) {
				t.Errorf("WITNESS C02/C07: run error = %v, expected error: %v (%s)", err, wantErr, desc)
			}
			if t.Failed() {
				return
			}
		}
	}
}
