package runner

// Witness search for failed obligations of Run / execute / before / after / CompileTask:
// bounded enumeration on the REAL code (never used as evidence of correctness).

import (
	"bytes"
	"fmt"
	"io/ioutil"
	"path/filepath"
	"strings"
	"testing"

	"github.com/taskctl/taskctl/pkg/task"
	"github.com/taskctl/taskctl/pkg/variables"
)

func TestOracleRun(t *testing.T) {
	dir := t.TempDir()
	log := filepath.Join(dir, "log")
	codes := []int{0, 3, 200}
	for ncmd := 0; ncmd <= 2; ncmd++ {
		total := 1
		for i := 0; i < ncmd; i++ {
			total *= len(codes)
		}
		for cc := 0; cc < total; cc++ {
			for nvar := 1; nvar <= 2; nvar++ {
				for flags := 0; flags < 1<<5; flags++ {
					af := flags&1 != 0
					beforeFail := flags&2 != 0
					hasHooks := flags&4 != 0
					cond := (flags >> 3) & 3 // 0 none, 1 true, 2 false
					if cond == 3 || (!hasHooks && beforeFail) {
						continue
					}
					ioutil.WriteFile(log, nil, 0644)
					var cmds []string
					var exits []int
					c := cc
					for i := 0; i < ncmd; i++ {
						e := codes[c%len(codes)]
						c /= len(codes)
						exits = append(exits, e)
						cmds = append(cmds, fmt.Sprintf("echo c%d-$V >> %s; exit %d", i, log, e))
					}
					tk := task.FromCommands(cmds...)
					tk.Name = "t"
					tk.AllowFailure = af
					if nvar == 2 {
						tk.Variations = []map[string]string{{"V": "x"}, {"V": "y"}}
					} else {
						tk.Env = tk.Env.With("V", "x")
					}
					if hasHooks {
						b := fmt.Sprintf("echo before >> %s", log)
						if beforeFail {
							b += "; exit 9"
						}
						tk.Before = []string{b}
						tk.After = []string{fmt.Sprintf("echo after >> %s", log)}
					}
					if cond == 1 {
						tk.Condition = "true"
					} else if cond == 2 {
						tk.Condition = "exit 1"
					}
					r, err := NewTaskRunner(WithVariables(variables.FromMap(map[string]string{"Args": ""})))
					if err != nil {
						t.Fatal(err)
					}
					var out bytes.Buffer
					r.Stdout, r.Stderr = &out, &out
					rerr := r.Run(tk)
					b, _ := ioutil.ReadFile(log)
					got := strings.Fields(string(b))
					// expected trace
					var want []string
					wantErr, wantExit, wantErrored, wantSkipped := false, 0, false, false
					if cond == 2 {
						wantSkipped = true
					} else {
						stop := false
						if hasHooks {
							want = append(want, "before")
							if beforeFail {
								stop, wantErr = true, true
							}
						}
						if !stop {
							vs := []string{"x"}
							if nvar == 2 {
								vs = []string{"x", "y"}
							}
						outer:
							for _, v := range vs {
								for i, e := range exits {
									want = append(want, fmt.Sprintf("c%d-%s", i, v))
									if e != 0 {
										wantExit = e
										if !af {
											stop, wantErr, wantErrored = true, true, true
											break outer
										}
									}
								}
							}
							if !stop && hasHooks {
								want = append(want, "after")
							}
						}
					}
					desc := fmt.Sprintf("exits=%v variations=%d allow_failure=%v hooks=%v beforeFail=%v cond=%d", exits, nvar, af, hasHooks, beforeFail, cond)
					if strings.Join(got, " ") != strings.Join(want, " ") {
						t.Errorf("WITNESS C06 order: ran %v, expected %v (%s)", got, want, desc)
					}
					if (rerr != nil) != wantErr {
						t.Errorf("WITNESS C07 error: Run returned %v, expected error=%v (%s)", rerr, wantErr, desc)
					}
					if tk.Errored != wantErrored || tk.Skipped != wantSkipped {
						t.Errorf("WITNESS C07 flags: errored=%v skipped=%v, expected %v %v (%s)", tk.Errored, tk.Skipped, wantErrored, wantSkipped, desc)
					}
					if wantErrored && int(tk.ExitCode) != wantExit {
						t.Errorf("WITNESS C07 exit code: %d, expected %d (%s)", tk.ExitCode, wantExit, desc)
					}
					if !wantErrored && !wantSkipped && !wantErr && tk.ExitCode != 0 {
						t.Errorf("WITNESS C07 exit code: %d for a task that succeeded (%s)", tk.ExitCode, desc)
					}
					if t.Failed() {
						return
					}
				}
			}
		}
	}
}
