package main

// Loading /repo's working tree into go/ssa (NaiveForm), indexing functions,
// loading contracts (repo //@ files + /verif/libspec), Go type -> SMT sort mapping.

import (
	"regexp"
	"fmt"
	"go/ast"
	"go/printer"
	"go/token"
	"go/types"
	"hash/fnv"
	"os"
	"path/filepath"
	"sort"
	"strings"

	"golang.org/x/tools/go/packages"
	"golang.org/x/tools/go/ssa"
	"golang.org/x/tools/go/ssa/ssautil"
)

const modPath = "github.com/taskctl/taskctl"

type Prog struct {
	repo   string
	fset   *token.FileSet
	prog   *ssa.Program
	pkgs   map[string]*ssa.Package // by import path
	ppkgs  map[string]*packages.Package
	fns    map[string]*ssa.Function // "scheduler.checkStatus", "scheduler.(*ExecutionGraph).cycleDfs"
	specs  map[string]*PkgSpec      // by import path
	short  map[string]string        // import path -> short name used in obligation names
	tags   map[string]int           // dynamic type tags
	tagTyp []types.Type
	loadS  float64
}

func shortPkg(path string) string {
	if path == modPath+"/cmd/taskctl" {
		return "main"
	}
	i := strings.LastIndex(path, "/")
	return path[i+1:]
}

func loadProg(repo string, libspecDir string) *Prog {
	cfg := &packages.Config{Mode: packages.LoadAllSyntax, Dir: repo, BuildFlags: []string{"-tags=verif"},
		Env: append(os.Environ(), "GOFLAGS=-mod=mod", "GOPROXY=off", "GOSUMDB=off", "GOTOOLCHAIN=local")}
	pkgs, err := packages.Load(cfg, "./...")
	if err != nil {
		fatalf("packages.Load: %v", err)
	}
	nerr := 0
	packages.Visit(pkgs, nil, func(p *packages.Package) {
		for _, e := range p.Errors {
			if strings.HasPrefix(p.PkgPath, modPath) {
				fmt.Fprintf(os.Stderr, "load error: %v\n", e)
				nerr++
			}
		}
	})
	if nerr > 0 {
		fatalf("the working tree of %s does not type-check (%d errors)", repo, nerr)
	}
	prog, spkgs := ssautil.Packages(pkgs, ssa.NaiveForm|ssa.GlobalDebug)
	P := &Prog{repo: repo, prog: prog, fset: prog.Fset, pkgs: map[string]*ssa.Package{}, ppkgs: map[string]*packages.Package{}, fns: map[string]*ssa.Function{}, specs: map[string]*PkgSpec{}, short: map[string]string{}, tags: map[string]int{}}
	for i, sp := range spkgs {
		if sp == nil {
			continue
		}
		sp.Build()
		P.pkgs[sp.Pkg.Path()] = sp
		P.ppkgs[sp.Pkg.Path()] = pkgs[i]
		P.short[sp.Pkg.Path()] = shortPkg(sp.Pkg.Path())
	}
	for fn := range ssautil.AllFunctions(prog) {
		if fn.Pkg == nil || !strings.HasPrefix(fn.Pkg.Pkg.Path(), modPath) {
			continue
		}
		P.fns[P.fnName(fn)] = fn
	}
	// contracts in the repository (comment-only files behind the verif tag)
	for path, pp := range P.ppkgs {
		for _, f := range pp.GoFiles {
			if filepath.Base(f) == "verif_contracts.go" {
				parseSpecFile(f, true, path, P.specs)
			}
		}
	}
	// assumed contracts for everything outside the module
	if libspecDir != "" {
		files, _ := filepath.Glob(filepath.Join(libspecDir, "*.spec"))
		sort.Strings(files)
		for _, f := range files {
			parseSpecFile(f, false, "", P.specs)
		}
	}
	return P
}

// fnName is the name under which a function is addressed in contracts and
// obligation names: <shortpkg>.<RelString>.
func (P *Prog) fnName(fn *ssa.Function) string {
	if fn.Pkg == nil {
		return fn.String()
	}
	return P.short[fn.Pkg.Pkg.Path()] + "." + P.relName(fn)
}

func (P *Prog) relName(fn *ssa.Function) string {
	if fn.Parent() != nil {
		// anonymous function: parent's name + $n
		return P.relName(fn.Parent()) + fn.Name()[strings.LastIndex(fn.Name(), "$"):]
	}
	if fn.Pkg == nil {
		return fn.String()
	}
	return fn.RelString(fn.Pkg.Pkg)
}

// qualName is the fully qualified name used to look up contracts of callees:
// "<import path>.<RelString>".
func (P *Prog) qualName(fn *ssa.Function) (pkg, rel string) {
	if fn.Pkg != nil {
		return fn.Pkg.Pkg.Path(), P.relName(fn)
	}
	// method of an external type or a synthetic wrapper
	if recv := fn.Signature.Recv(); recv != nil {
		t := recv.Type()
		ptr := ""
		if p, ok := t.(*types.Pointer); ok {
			t = p.Elem()
			ptr = "*"
		}
		if n, ok := t.(*types.Named); ok && n.Obj().Pkg() != nil {
			return n.Obj().Pkg().Path(), fmt.Sprintf("(%s%s).%s", ptr, n.Obj().Name(), fn.Name())
		}
	}
	if fn.Object() != nil && fn.Object().Pkg() != nil {
		return fn.Object().Pkg().Path(), fn.Name()
	}
	return "", fn.String()
}

func (P *Prog) contractOf(pkg, rel string) *Contract {
	if sp := P.specs[pkg]; sp != nil {
		return sp.Contracts[rel]
	}
	return nil
}

func (P *Prog) srcOf(n ast.Node) string {
	var b strings.Builder
	printer.Fprint(&b, P.fset, n)
	return b.String()
}

func (P *Prog) pos(p token.Pos) string {
	if !p.IsValid() {
		return ""
	}
	ps := P.fset.Position(p)
	return fmt.Sprintf("%s:%d", strings.TrimPrefix(ps.Filename, P.repo+"/"), ps.Line)
}

// ---------------------------------------------------------------- types

func isStructLike(t types.Type) bool {
	switch t.Underlying().(type) {
	case *types.Struct, *types.Array:
		return true
	}
	return false
}

func sortOf(t types.Type) Sort {
	switch u := t.Underlying().(type) {
	case *types.Basic:
		switch {
		case u.Info()&types.IsBoolean != 0:
			return SBool
		case u.Info()&types.IsString != 0:
			return SStr
		default:
			return SInt // integers, floats (uninterpreted), unsafe.Pointer, untyped nil
		}
	case *types.Slice:
		return SSlice
	case *types.Interface:
		return SIface
	case *types.Tuple:
		panic("sortOf(tuple)")
	}
	return SInt // pointers, maps, chans, funcs, structs and arrays (value references)
}

func isRefType(t types.Type) bool {
	switch t.Underlying().(type) {
	case *types.Pointer, *types.Map, *types.Chan, *types.Signature:
		return true
	}
	return false
}

var anyWord = regexp.MustCompile(`\bany\b`)

func typeKey(t types.Type) string {
	s := types.TypeString(t, func(p *types.Package) string {
		path := p.Path()
		if strings.HasPrefix(path, modPath) {
			return shortPkg(path)
		}
		return path
	})
	// `any` is an alias of interface{}: identical types must share one heap entry
	s = anyWord.ReplaceAllString(s, "interface {}")
	k := sanitize(s)
	if len(k) > 60 {
		h := fnv.New32a()
		h.Write([]byte(s))
		k = fmt.Sprintf("%s_%08x", k[:48], h.Sum32())
	}
	return k
}

// fieldKey is the heap array holding field i of struct type st (named or not).
func fieldKey(st types.Type, i int) (string, Sort) {
	s := st.Underlying().(*types.Struct)
	f := s.Field(i)
	return "F_" + typeKey(st) + "_" + f.Name() + refMark(f.Type()), ArrSort(SInt, sortOf(f.Type()))
}

// refMark distinguishes heap entries holding references (pointers, maps, chans,
// funcs) from those holding plain integers: both have sort Int.
func refMark(t types.Type) string {
	if isRefType(t) {
		return "_Ref"
	}
	return ""
}

func sortName(t types.Type) string {
	if isRefType(t) {
		return "Ref"
	}
	return sanitize(string(sortOf(t)))
}

func subName(st types.Type, i int) string {
	s := st.Underlying().(*types.Struct)
	return "sub_" + typeKey(st) + "_" + s.Field(i).Name()
}

// Heap entries for slice elements, escaping locals and maps are keyed by the Go
// element / map type: Go's type system rules out aliasing between them.
func elemKey(elem types.Type) (string, Sort) {
	es := sortOf(elem)
	return "Elem_" + typeKey(elem) + refMark(elem), ArrSort(SInt, ArrSort(SInt, es))
}

func boxKey(elem types.Type) (string, Sort) {
	es := sortOf(elem)
	return "Box_" + typeKey(elem) + refMark(elem), ArrSort(SInt, es)
}

func mapKeys(mt *types.Map) (dom, val string, domS, valS Sort) {
	ks, vs := sortOf(mt.Key()), sortOf(mt.Elem())
	sfx := typeKey(mt.Key()) + "_" + typeKey(mt.Elem())
	return "MapDom_" + sfx, "MapVal_" + sfx + refMark(mt.Elem()), ArrSort(SInt, ArrSort(ks, SBool)), ArrSort(SInt, ArrSort(ks, vs))
}

func zeroTerm(s Sort) Term {
	switch s {
	case SInt:
		return TZero
	case SBool:
		return TFalse
	case SStr:
		return Term{"str_empty", SStr}
	case SSlice:
		return NilSlice
	case SIface:
		return NilIface
	}
	panic("zeroTerm: " + string(s))
}

// intRange returns the value range of an integer type, ok=false if t is not a
// (sized) integer.
func intRange(t types.Type) (lo, hi string, ok bool) {
	b, isB := t.Underlying().(*types.Basic)
	if !isB || b.Info()&types.IsInteger == 0 {
		return
	}
	switch b.Kind() {
	case types.Int8:
		return "-128", "127", true
	case types.Int16:
		return "-32768", "32767", true
	case types.Int32:
		return "-2147483648", "2147483647", true
	case types.Int, types.Int64:
		return "-9223372036854775808", "9223372036854775807", true
	case types.Uint8:
		return "0", "255", true
	case types.Uint16:
		return "0", "65535", true
	case types.Uint32:
		return "0", "4294967295", true
	case types.Uint, types.Uint64, types.Uintptr:
		return "0", "18446744073709551615", true
	}
	return
}

func (P *Prog) tagOf(t types.Type) int {
	k := types.TypeString(t, nil)
	if n, ok := P.tags[k]; ok {
		return n
	}
	n := len(P.tags) + 1
	P.tags[k] = n
	P.tagTyp = append(P.tagTyp, t)
	return n
}

// resolveType parses a type written in a contract ("*Stage", "map[string]bool",
// "task.Task", "int") in the scope of package pkg.
func (P *Prog) resolveType(pkg *types.Package, s string) types.Type {
	s = strings.TrimSpace(s)
	switch {
	case strings.HasPrefix(s, "*"):
		return types.NewPointer(P.resolveType(pkg, s[1:]))
	case strings.HasPrefix(s, "[]"):
		return types.NewSlice(P.resolveType(pkg, s[2:]))
	case strings.HasPrefix(s, "map["):
		depth := 0
		for i := 3; i < len(s); i++ {
			if s[i] == '[' {
				depth++
			}
			if s[i] == ']' {
				depth--
				if depth == 0 {
					return types.NewMap(P.resolveType(pkg, s[4:i]), P.resolveType(pkg, s[i+1:]))
				}
			}
		}
	}
	switch s {
	case "int":
		return types.Typ[types.Int]
	case "int32":
		return types.Typ[types.Int32]
	case "int16":
		return types.Typ[types.Int16]
	case "int64":
		return types.Typ[types.Int64]
	case "uint8", "byte":
		return types.Typ[types.Uint8]
	case "bool":
		return types.Typ[types.Bool]
	case "string":
		return types.Typ[types.String]
	case "error":
		return types.Universe.Lookup("error").Type()
	case "any":
		return types.NewInterfaceType(nil, nil)
	}
	if i := strings.LastIndex(s, "."); i >= 0 {
		pn, tn := s[:i], s[i+1:]
		// imported package by name or by path
		if pkg != nil {
			for _, imp := range pkg.Imports() {
				if imp.Name() == pn || imp.Path() == pn {
					if o := imp.Scope().Lookup(tn); o != nil {
						return o.Type()
					}
				}
			}
		}
		for path, sp := range P.pkgs {
			if path == pn || shortPkg(path) == pn {
				if o := sp.Pkg.Scope().Lookup(tn); o != nil {
					return o.Type()
				}
			}
		}
		for _, p := range P.prog.AllPackages() {
			if p.Pkg.Path() == pn || p.Pkg.Name() == pn {
				if o := p.Pkg.Scope().Lookup(tn); o != nil {
					return o.Type()
				}
			}
		}
	} else if pkg != nil {
		if o := pkg.Scope().Lookup(s); o != nil {
			if _, ok := o.(*types.TypeName); ok {
				return o.Type()
			}
		}
	}
	fatalf("cannot resolve type %q in package %v", s, pkg)
	return nil
}
