package main

import (
	"flag"
	"fmt"
	"os"
	"path/filepath"
	"sort"
	"strings"
	"time"

	"golang.org/x/tools/go/ssa"
)

var (
	verifRoot = "/verif"
	repoRoot  = "/repo"
)

func main() {
	if v := os.Getenv("GOVC_VERIF"); v != "" {
		verifRoot = v
	}
	if v := os.Getenv("GOVC_REPO"); v != "" {
		repoRoot = v
	}
	if len(os.Args) < 2 {
		fmt.Fprintln(os.Stderr, "usage: govc fn|dump|check|list ...")
		os.Exit(2)
	}
	var err error
	workDir, err = os.MkdirTemp("", "govc-work-")
	if err != nil {
		panic(err)
	}
	code := 0
	func() {
		defer os.RemoveAll(workDir)
		defer func() {
			if r := recover(); r != nil {
				if te, ok := r.(toolError); ok {
					fmt.Fprintln(os.Stderr, "govc: tool error:", te.msg)
					code = 3
					return
				}
				panic(r)
			}
		}()
		switch os.Args[1] {
		case "dump":
			cmdDump(os.Args[2:])
		case "fn":
			code = cmdFn(os.Args[2:])
		case "list":
			P := loadProg(repoRoot, filepath.Join(verifRoot, "libspec"))
			var ns []string
			for n := range P.fns {
				ns = append(ns, n)
			}
			sort.Strings(ns)
			for _, n := range ns {
				fmt.Println(n)
			}
		case "names":
			code = cmdNames()
		case "check":
			code = cmdCheck(os.Args[2:])
		case "replay":
			code = cmdReplay(os.Args[2:])
		default:
			fmt.Fprintln(os.Stderr, "unknown command", os.Args[1])
			code = 2
		}
	}()
	os.Exit(code)
}

func cmdDump(args []string) {
	P := loadProg(repoRoot, "")
	for _, a := range args {
		fn := P.fns[a]
		if fn == nil {
			for n, f := range P.fns {
				if strings.Contains(n, a) {
					fn = f
					fmt.Println("##", n)
					writeFn(fn)
				}
			}
			continue
		}
		writeFn(fn)
	}
}

func writeFn(fn *ssa.Function) {
	var b strings.Builder
	fn.WriteTo(&b)
	for _, l := range strings.Split(b.String(), "\n") {
		if strings.HasPrefix(strings.TrimSpace(l), "; ") {
			continue
		}
		fmt.Println(l)
	}
}

func cmdFn(args []string) int {
	fs := flag.NewFlagSet("fn", flag.ExitOnError)
	sweep := fs.Bool("sweep", false, "zero-annotation mode")
	secs := fs.Int("t", 10, "solver timeout")
	verbose := fs.Bool("v", false, "verbose")
	keep := fs.String("keep", "", "directory to keep failing SMT files")
	fs.Parse(args)
	t0 := time.Now()
	P := loadProg(repoRoot, filepath.Join(verifRoot, "libspec"))
	fmt.Printf("loaded in %.1fs\n", time.Since(t0).Seconds())
	bad := 0
	for _, name := range fs.Args() {
		var res *FnResult
		if strings.HasSuffix(name, ":lemmas") {
			res = P.verifyLemmas(strings.TrimSuffix(name, ":lemmas"))
		} else {
			res = P.verifyFn(name, *sweep)
		}
		if res.Err != "" {
			fmt.Printf("%s: TOOL ERROR: %s\n", name, res.Err)
			bad++
			continue
		}
		solveAll(res.VCs, *secs, "quick", 16)
		ok, fail := 0, 0
		canaryOK := false
		for _, vc := range res.VCs {
			if vc.Kind == "canary" && vcGood(vc) {
				canaryOK = true
			}
		}
		for i, vc := range res.VCs {
			if vc.Kind == "canary" && canaryOK {
				ok++
				continue
			}
			good := vcGood(vc)
			if good {
				ok++
				if *verbose {
					fmt.Printf("  ok   %-60s %s %s %.2fs\n", vc.Obl, vc.Path, vc.Solver, vc.Secs)
				}
				if *keep != "" && os.Getenv("GOVC_KEEPALL") != "" {
					os.MkdirAll(*keep, 0755)
					os.WriteFile(filepath.Join(*keep, fmt.Sprintf("ok_%s_%s_%d.smt2", vc.Solver, sanitize(vc.Obl), i)), []byte(vc.SMT+"\n(check-sat)\n"), 0644)
				}
			} else {
				fail++
				fmt.Printf("  FAIL %-60s path=%s status=%s solver=%s pos=%s\n       goal: %s\n", vc.Obl, vc.Path, vc.Status, vc.Solver, vc.Pos, truncate(vc.Goal, 300))
				if *keep != "" {
					os.MkdirAll(*keep, 0755)
					os.WriteFile(filepath.Join(*keep, fmt.Sprintf("%s_%d.smt2", sanitize(vc.Obl), i)), []byte(vc.SMT+"\n(check-sat)\n(get-model)\n"), 0644)
				}
			}
		}
		fmt.Printf("%s: %d VCs, %d ok, %d failed, %d paths; inlined=%v trusted=%v\n", name, len(res.VCs), ok, fail, res.Paths, res.Inlined, res.Trusted)
		for _, n := range res.Notes {
			fmt.Println("   note:", n)
		}
		bad += fail
	}
	if bad > 0 {
		return 1
	}
	return 0
}



// vcGood: a proof VC must be unsat; a vacuity VC (ExpectSat) fails only when
// the solver proves the assumptions contradictory.
func vcGood(vc *VC) bool {
	if vc.ExpectSat {
		return vc.Status != "unsat" && vc.Status != "error"
	}
	return vc.Status == "unsat"
}
