package main

// SMT-LIB term construction, sorts, declaration registry, solver racing.

import (
	"math/big"
	"bytes"
	"context"
	"fmt"
	"os"
	"os/exec"
	"path/filepath"
	"sort"
	"strings"
	"sync"
	"time"
)

type Sort string

const (
	SInt   Sort = "Int"
	SBool  Sort = "Bool"
	SStr   Sort = "Str"
	SSlice Sort = "Slice"
	SIface Sort = "Iface"
)

func ArrSort(idx, elem Sort) Sort { return Sort("(Array " + string(idx) + " " + string(elem) + ")") }

// Term is an SMT term together with its sort.
type Term struct {
	S    string
	Sort Sort
}

func (t Term) String() string { return t.S }

func mk(sort Sort, op string, args ...Term) Term {
	var b strings.Builder
	b.WriteByte('(')
	b.WriteString(op)
	for _, a := range args {
		b.WriteByte(' ')
		b.WriteString(a.S)
	}
	b.WriteByte(')')
	return Term{b.String(), sort}
}

func IntLit(n int64) Term {
	if n < 0 {
		return Term{fmt.Sprintf("(- %d)", -n), SInt}
	}
	return Term{fmt.Sprintf("%d", n), SInt}
}
func BigLit(s string) Term {
	if strings.HasPrefix(s, "-") {
		return Term{"(- " + s[1:] + ")", SInt}
	}
	return Term{s, SInt}
}

var (
	TTrue  = Term{"true", SBool}
	TFalse = Term{"false", SBool}
	TZero  = IntLit(0)
)

func BoolLit(b bool) Term {
	if b {
		return TTrue
	}
	return TFalse
}

func And(ts ...Term) Term {
	var xs []Term
	for _, t := range ts {
		if t.S == "true" {
			continue
		}
		if t.S == "false" {
			return TFalse
		}
		xs = append(xs, t)
	}
	if len(xs) == 0 {
		return TTrue
	}
	if len(xs) == 1 {
		return xs[0]
	}
	return mk(SBool, "and", xs...)
}
func Or(ts ...Term) Term {
	var xs []Term
	for _, t := range ts {
		if t.S == "false" {
			continue
		}
		if t.S == "true" {
			return TTrue
		}
		xs = append(xs, t)
	}
	if len(xs) == 0 {
		return TFalse
	}
	if len(xs) == 1 {
		return xs[0]
	}
	return mk(SBool, "or", xs...)
}
func Not(t Term) Term {
	if t.S == "true" {
		return TFalse
	}
	if t.S == "false" {
		return TTrue
	}
	if strings.HasPrefix(t.S, "(not ") {
		return Term{t.S[5 : len(t.S)-1], SBool}
	}
	return mk(SBool, "not", t)
}
func Implies(a, b Term) Term {
	if a.S == "true" {
		return b
	}
	if a.S == "false" || b.S == "true" {
		return TTrue
	}
	return mk(SBool, "=>", a, b)
}
func Eq(a, b Term) Term {
	if a.S == b.S {
		return TTrue
	}
	if a.Sort != b.Sort {
		panic(fmt.Sprintf("Eq: sort mismatch %s:%s vs %s:%s", a.S, a.Sort, b.S, b.Sort))
	}
	if x, ok := litVal(a); ok {
		if y, ok := litVal(b); ok {
			return BoolLit(x.Cmp(y) == 0)
		}
	}
	return mk(SBool, "=", a, b)
}
func Ne(a, b Term) Term { return Not(Eq(a, b)) }
func Lt(a, b Term) Term {
	if x, ok := litVal(a); ok {
		if y, ok := litVal(b); ok {
			return BoolLit(x.Cmp(y) < 0)
		}
	}
	return mk(SBool, "<", a, b)
}
func Le(a, b Term) Term {
	if x, ok := litVal(a); ok {
		if y, ok := litVal(b); ok {
			return BoolLit(x.Cmp(y) <= 0)
		}
	}
	return mk(SBool, "<=", a, b)
}
func Add(a, b Term) Term {
	x, okx := litVal(a)
	y, oky := litVal(b)
	if okx && oky {
		return BigLit(new(big.Int).Add(x, y).String())
	}
	if okx && x.Sign() == 0 {
		return b
	}
	if oky && y.Sign() == 0 {
		return a
	}
	return mk(SInt, "+", a, b)
}
func Sub(a, b Term) Term {
	x, okx := litVal(a)
	y, oky := litVal(b)
	if okx && oky {
		return BigLit(new(big.Int).Sub(x, y).String())
	}
	if oky && y.Sign() == 0 {
		return a
	}
	return mk(SInt, "-", a, b)
}

// litVal recognises integer literals ("5", "(- 5)").
func litVal(t Term) (*big.Int, bool) {
	if t.Sort != SInt || t.S == "" {
		return nil, false
	}
	s := t.S
	neg := false
	if strings.HasPrefix(s, "(- ") && strings.HasSuffix(s, ")") && !strings.Contains(s[3:], " ") {
		neg = true
		s = s[3 : len(s)-1]
	}
	for _, c := range s {
		if c < '0' || c > '9' {
			return nil, false
		}
	}
	n, ok := new(big.Int).SetString(s, 10)
	if !ok {
		return nil, false
	}
	if neg {
		n.Neg(n)
	}
	return n, true
}

// topArgs splits "(op a b c)" into op and its top-level arguments.
func topArgs(s string) (string, []string) {
	if len(s) < 2 || s[0] != '(' {
		return "", nil
	}
	body := s[1 : len(s)-1]
	var parts []string
	depth, start := 0, 0
	for i := 0; i < len(body); i++ {
		switch body[i] {
		case '(':
			depth++
		case ')':
			depth--
		case ' ':
			if depth == 0 {
				if i > start {
					parts = append(parts, body[start:i])
				}
				start = i + 1
			}
		}
	}
	if start < len(body) {
		parts = append(parts, body[start:])
	}
	if len(parts) == 0 {
		return "", nil
	}
	return parts[0], parts[1:]
}

func sliceField(s Term, i int, name string) Term {
	if op, args := topArgs(s.S); op == "mkslice" && len(args) == 4 {
		return Term{args[i], SInt}
	}
	return mk(SInt, name, s)
}
func Ite(c, a, b Term) Term {
	if c.S == "true" {
		return a
	}
	if c.S == "false" {
		return b
	}
	return mk(a.Sort, "ite", c, a, b)
}

func elemSortOf(arr Sort) Sort {
	// "(Array I E)" -> E ; handles nested parens
	s := string(arr)
	if !strings.HasPrefix(s, "(Array ") {
		panic("not an array sort: " + s)
	}
	body := s[len("(Array ") : len(s)-1]
	// split first sort
	i := splitSort(body)
	return Sort(strings.TrimSpace(body[i:]))
}
func idxSortOf(arr Sort) Sort {
	s := string(arr)
	body := s[len("(Array ") : len(s)-1]
	i := splitSort(body)
	return Sort(strings.TrimSpace(body[:i]))
}
func splitSort(body string) int {
	depth := 0
	for i, c := range body {
		switch c {
		case '(':
			depth++
		case ')':
			depth--
		case ' ':
			if depth == 0 {
				return i
			}
		}
	}
	panic("splitSort: " + body)
}

func Select(a, i Term) Term { return mk(elemSortOf(a.Sort), "select", a, i) }
func Store(a, i, v Term) Term {
	if elemSortOf(a.Sort) != v.Sort {
		panic(fmt.Sprintf("Store: sort mismatch array %s value %s:%s", a.Sort, v.S, v.Sort))
	}
	return mk(a.Sort, "store", a, i, v)
}
func ConstArr(s Sort, v Term) Term {
	if v.S == "str_empty" {
		// cvc5 accepts only values as const-array defaults: named constant with an axiom (prelude)
		return Term{"zarr_" + sanitize(string(idxSortOf(s))) + "_Str", s}
	}
	return Term{fmt.Sprintf("((as const %s) %s)", s, v.S), s}
}

// slice / iface accessors
func SArr(s Term) Term { return sliceField(s, 0, "sarr") }
func SOff(s Term) Term { return sliceField(s, 1, "soff") }
func SLen(s Term) Term { return sliceField(s, 2, "slen") }
func SCap(s Term) Term { return sliceField(s, 3, "scap") }
func SIdx(s, i Term) Term {
	if op, args := topArgs(s.S); op == "mkslice" && len(args) == 4 && args[1] == "0" {
		return i
	}
	return mk(SInt, "sidx", s, i)
}
func MkSlice(a, o, l, c Term) Term { return mk(SSlice, "mkslice", a, o, l, c) }
func ITag(i Term) Term           { return mk(SInt, "itag", i) }
func IVal(i Term) Term           { return mk(SInt, "ival", i) }
func MkIface(t, v Term) Term     { return mk(SIface, "mkiface", t, v) }

var NilSlice = Term{"(mkslice 0 0 0 0)", SSlice}
var NilIface = Term{"(mkiface 0 0)", SIface}

func sanitize(s string) string {
	var b strings.Builder
	for _, c := range s {
		switch {
		case c >= 'a' && c <= 'z', c >= 'A' && c <= 'Z', c >= '0' && c <= '9', c == '_':
			b.WriteRune(c)
		case c == '.', c == '/':
			b.WriteByte('_')
		case c == '*':
			b.WriteString("P")
		case c == '[':
			b.WriteString("L")
		case c == ']':
			b.WriteString("J")
		case c == '$':
			b.WriteString("S")
		default:
			b.WriteString(fmt.Sprintf("x%x", c))
		}
	}
	return b.String()
}

// Decls is an ordered registry of SMT declarations and global axioms.
type Decls struct {
	order []string
	seen  map[string]bool
	n     int
}

func NewDecls() *Decls { return &Decls{seen: map[string]bool{}} }

func (d *Decls) Add(key, text string) {
	if d.seen[key] {
		return
	}
	d.seen[key] = true
	d.order = append(d.order, text)
}
func (d *Decls) Has(key string) bool { return d.seen[key] }

func (d *Decls) Const(name string, s Sort) Term {
	d.Add("c:"+name, fmt.Sprintf("(declare-const %s %s)", name, s))
	return Term{name, s}
}

// Fresh returns a fresh constant with the given name hint.
func (d *Decls) Fresh(hint string, s Sort) Term {
	d.n++
	return d.Const(fmt.Sprintf("%s!%d", sanitize(hint), d.n), s)
}

func (d *Decls) Fun(name string, args []Sort, res Sort) {
	var as []string
	for _, a := range args {
		as = append(as, string(a))
	}
	d.Add("f:"+name, fmt.Sprintf("(declare-fun %s (%s) %s)", name, strings.Join(as, " "), res))
}
func (d *Decls) Axiom(key, text string) { d.Add("a:"+key, "(assert "+text+")") }

func (d *Decls) Text() string { return strings.Join(d.order, "\n") }
func (d *Decls) Len() int     { return len(d.order) }

const smtPrelude = `(set-logic ALL)
(declare-sort Str 0)
(declare-datatypes ((Slice 0)) (((mkslice (sarr Int) (soff Int) (slen Int) (scap Int)))))
(declare-datatypes ((Iface 0)) (((mkiface (itag Int) (ival Int)))))
(declare-fun sidx (Slice Int) Int)
(assert (forall ((s Slice) (i Int)) (! (= (sidx s i) (+ (soff s) i)) :pattern ((sidx s i)))))
(declare-fun strlen (Str) Int)
(declare-const str_empty Str)
(assert (= (strlen str_empty) 0))
(assert (forall ((s Str)) (! (and (>= (strlen s) 0) (=> (= (strlen s) 0) (= s str_empty))) :pattern ((strlen s)))))
(declare-const zarr_Int_Str (Array Int Str))
(assert (forall ((i Int)) (! (= (select zarr_Int_Str i) str_empty) :pattern ((select zarr_Int_Str i)))))
(declare-const zarr_Str_Str (Array Str Str))
(assert (forall ((i Str)) (! (= (select zarr_Str_Str i) str_empty) :pattern ((select zarr_Str_Str i)))))
(declare-fun strcat (Str Str) Str)
(assert (forall ((a Str) (b Str)) (! (= (strlen (strcat a b)) (+ (strlen a) (strlen b))) :pattern ((strcat a b)))))
(declare-fun box_Str (Str) Int)
(declare-fun unbox_Str (Int) Str)
(assert (forall ((s Str)) (! (= (unbox_Str (box_Str s)) s) :pattern ((box_Str s)))))
(declare-fun box_Slice (Slice) Int)
(declare-fun unbox_Slice (Int) Slice)
(assert (forall ((s Slice)) (! (= (unbox_Slice (box_Slice s)) s) :pattern ((box_Slice s)))))
(declare-fun box_Iface (Iface) Int)
(declare-fun unbox_Iface (Int) Iface)
(assert (forall ((s Iface)) (! (= (unbox_Iface (box_Iface s)) s) :pattern ((box_Iface s)))))
`

// ---------------------------------------------------------------- solving

type VC struct {
	Obl     string // obligation name (structural)
	Kind    string
	Fn      string
	Path    string // human readable path id
	SMT     string // full SMT-LIB text (without check-sat)
	Goal    string // readable goal
	ExpectSat bool // vacuity canaries: "sat" is the good answer
	Known     bool // obligation of a recorded known finding: expected to fail, solved once with a short limit
	// results
	Status  string // unsat | sat | unknown | timeout | error
	Solver  string
	Secs    float64
	Output  string
	Values  []string // terms to get-value on sat
	Model   string
	Pos     string
}

type solverSpec struct {
	name string
	argv func(file string, secs int) []string
}

var solvers = []solverSpec{
	{"z3-5.1.0", func(f string, s int) []string { return []string{"z3-new", fmt.Sprintf("-T:%d", s), f} }},
	{"z3-4.8.12", func(f string, s int) []string { return []string{"z3", fmt.Sprintf("-T:%d", s), f} }},
	{"cvc5-1.0", func(f string, s int) []string {
		return []string{"cvc5", fmt.Sprintf("--tlimit=%d", s*1000), "--full-saturate-quant", f}
	}},
	// cvc5 with its default (E-matching only) quantifier strategy: decides some goals in
	// milliseconds on which the saturating strategy above and both z3 versions time out
	{"cvc5-1.0-ematch", func(f string, s int) []string {
		return []string{"cvc5", fmt.Sprintf("--tlimit=%d", s*1000), f}
	}},
}

var workDir string

func runSolver(sp solverSpec, file string, secs int) (status, out string, dur float64) {
	return runSolverCtx(context.Background(), sp, file, secs)
}

func runSolverCtx(parent context.Context, sp solverSpec, file string, secs int) (status, out string, dur float64) {
	ctx, cancel := context.WithTimeout(parent, time.Duration(secs+2)*time.Second)
	defer cancel()
	argv := sp.argv(file, secs)
	cmd := exec.CommandContext(ctx, argv[0], argv[1:]...)
	var buf bytes.Buffer
	cmd.Stdout = &buf
	cmd.Stderr = &buf
	t0 := time.Now()
	_ = cmd.Run()
	dur = time.Since(t0).Seconds()
	out = buf.String()
	first := ""
	for _, l := range strings.Split(out, "\n") {
		// z3 prints pattern warnings before the answer (a pattern over a merged, ite-valued slice)
		if l = strings.TrimSpace(l); l != "" && !strings.HasPrefix(l, "WARNING") {
			first = l
			break
		}
	}
	switch first {
	case "unsat", "sat", "unknown":
		status = first
	case "timeout":
		status = "timeout"
	default:
		if ctx.Err() != nil {
			status = "timeout"
		} else if strings.Contains(out, "interrupted by timeout") || strings.Contains(out, "timeout") {
			status = "timeout"
		} else {
			status = "error"
		}
	}
	return
}

// solveVC decides one VC. mode "quick": z3-new first, then the two others in
// parallel if it was not conclusive. mode "all": all three, recording agreement.
func solveVC(vc *VC, idx int, secs int, mode string) {
	file := filepath.Join(workDir, fmt.Sprintf("vc%05d.smt2", idx))
	text := vc.SMT + "\n(check-sat)\n"
	if len(vc.Values) > 0 {
		text += "(get-value (" + strings.Join(vc.Values, " ") + "))\n"
	}
	if err := os.WriteFile(file, []byte(text), 0644); err != nil {
		vc.Status, vc.Output = "error", err.Error()
		return
	}
	want := "unsat"
	if vc.ExpectSat {
		want = "sat"
	}
	type res struct {
		st, out, name string
		d             float64
	}
	race, stopRace := context.WithCancel(context.Background())
	defer stopRace()
	try := func(sp solverSpec, s int) res {
		st, out, d := runSolverCtx(race, sp, file, s)
		return res{st, out, sp.name, d}
	}
	conclusive := func(s string) bool { return s == "unsat" || s == "sat" }
	var all []res
	if mode == "all" {
		ch := make(chan res, len(solvers))
		for _, sp := range solvers {
			go func(sp solverSpec) { ch <- try(sp, secs) }(sp)
		}
		for range solvers {
			all = append(all, <-ch)
		}
	} else {
		first := secs
		if first > 4 {
			first = 4
		}
		// stage 1: z3 5.1.0 and cvc5's E-matching configuration side by side for a short time (between them
		// they decide almost every VC in well under a second); stage 2: all four for the full limit.
		stage1 := []solverSpec{solvers[0]}
		if mode != "quick1" {
			stage1 = append(stage1, solvers[len(solvers)-1])
		}
		got := false
		{
			ch := make(chan res, len(stage1))
			for _, sp := range stage1 {
				go func(sp solverSpec) { ch <- try(sp, first) }(sp)
			}
			for range stage1 {
				r := <-ch
				all = append(all, r)
				if r.st == want {
					got = true
					stopRace()
					break
				}
			}
		}
		if !got && mode != "quick1" {
			// a new race context: the first one was not cancelled, but keep the two stages independent
			race2, stop2 := context.WithCancel(context.Background())
			defer stop2()
			ch := make(chan res, len(solvers))
			n := 0
			for i, sp := range solvers {
				if i == 0 && first == secs {
					continue
				}
				n++
				go func(sp solverSpec) {
					st, out, d := runSolverCtx(race2, sp, file, secs)
					ch <- res{st, out, sp.name, d}
				}(sp)
			}
			for i := 0; i < n; i++ {
				r := <-ch
				all = append(all, r)
				if r.st == want {
					stop2() // the others are killed; their (interrupted) answers are not needed
					break
				}
			}
		}
	}
	// choose the verdict: wanted answer wins; else any conclusive; else unknown/timeout
	sort.SliceStable(all, func(i, j int) bool { return all[i].d < all[j].d })
	var pick *res
	for i := range all {
		if all[i].st == want {
			pick = &all[i]
			break
		}
	}
	if pick == nil {
		for i := range all {
			if conclusive(all[i].st) {
				pick = &all[i]
				break
			}
		}
	}
	if pick == nil {
		pick = &all[0]
		for i := range all {
			if all[i].st == "unknown" {
				pick = &all[i]
			}
		}
	}
	vc.Status, vc.Solver, vc.Output = pick.st, pick.name, pick.out
	for _, r := range all {
		vc.Secs += r.d
	}
	if mode == "all" {
		var agree []string
		for _, r := range all {
			agree = append(agree, r.name+"="+r.st)
		}
		sort.Strings(agree)
		vc.Model = strings.Join(agree, " ")
	}
	if vc.Status == want {
		os.Remove(file)
	}
}

var reachLimit int

func solveAll(vcs []*VC, secs int, mode string, par int) {
	var wg sync.WaitGroup
	sem := make(chan struct{}, par)
	for i, vc := range vcs {
		if vc.Solver == "trivial" {
			continue
		}
		wg.Add(1)
		sem <- struct{}{}
		go func(i int, vc *VC) {
			defer wg.Done()
			defer func() { <-sem }()
			if vc.ExpectSat {
				lim := 2
				if vc.Kind == "reach" && reachLimit > 0 {
					lim = reachLimit
				}
				solveVC(vc, i, lim, "quick1")
				return
			}
			if vc.Known {
				solveVC(vc, i, 4, "quick1")
				return
			}
			solveVC(vc, i, secs, mode)
			if !vc.ExpectSat && (vc.Status == "timeout" || vc.Status == "unknown" || vc.Status == "error") {
				// One retry before it counts as failed: all configurations raced again, first answer wins,
				// with four times the limit (a machine that runs many checks at once can slow a 0.5 s
				// query down by an order of magnitude; seen once: two benign changes "failed" the same
				// unrelated obligation while three other batch jobs were running).
				if mode == "all" {
					solveVC(vc, i, secs*2, "all")
				} else {
					solveVC(vc, i, secs*4, mode)
				}
			}
		}(i, vc)
	}
	wg.Wait()
}
