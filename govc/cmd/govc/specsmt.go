package main

// Evaluation of specification expressions to SMT terms in a program state.

import (
	"go/token"
	"fmt"
	"go/constant"
	"go/types"
	"strconv"
	"strings"

	"golang.org/x/tools/go/ssa"
)

// EVal is the value of a specification expression.
type EVal struct {
	T  Term
	Ty types.Type // Go type if known
	// ghost arrays: total SMT arrays declared with a map-ish type
	GKey, GVal types.Type
	GT    *ghostT // nested ghost arrays (value sort is itself an array)
	IsNil bool
	TypeName types.Type // expression denotes a type (for Type.Field)
	Pkg   *types.Package // expression denotes an imported package
}

type Env struct {
	s      *Session
	pkg    *types.Package
	spec   *PkgSpec
	st     *State
	vars   map[string]EVal
	lookup func(name string) (EVal, bool) // dynamic lookup (caller locals)
	old    *HeapSnap
	inOld  bool
	result []EVal
	loop   *loopInfo
	bound  map[string]EVal
	depth  int
	pos    token.Pos // callsite clauses: where the call is (selects among same-named locals)
}

func (e *Env) heap(key string, sort Sort) Term {
	if e.inOld {
		if e.old == nil {
			fatalf("%s: old() used where no old state exists", e.s.name)
		}
		return e.s.HSnap(e.old, key, sort)
	}
	return e.s.H(e.st, key, sort)
}

func (e *Env) child() *Env {
	c := *e
	c.bound = map[string]EVal{}
	for k, v := range e.bound {
		c.bound[k] = v
	}
	return &c
}

func (s *Session) specOf(pkgPath string) *PkgSpec {
	if sp := s.P.specs[pkgPath]; sp != nil {
		return sp
	}
	return newPkgSpec(pkgPath)
}

func (s *Session) evalBool(st *State, env *Env, e Expr, src string) Term {
	env.st = st
	v := env.eval(e)
	if v.T.Sort != SBool {
		fatalf("%s: specification %q is not boolean (sort %s)", s.name, src, v.T.Sort)
	}
	return v.T
}

func (e *Env) typesPkg() *types.Package { return e.pkg }

func (e *Env) ghostDecl(name string) *GhostDecl {
	for i := range e.spec.Ghosts {
		if e.spec.Ghosts[i].Name == name {
			return &e.spec.Ghosts[i]
		}
	}
	// ghosts of other packages (shared across the module)
	for _, sp := range e.s.P.specs {
		for i := range sp.Ghosts {
			if sp.Ghosts[i].Name == name {
				return &sp.Ghosts[i]
			}
		}
	}
	return nil
}

func ghostKey(name string) string { return "G_" + name }

func (e *Env) ghostPkg(g *GhostDecl) *types.Package {
	for path, sp := range e.s.P.specs {
		for i := range sp.Ghosts {
			if &sp.Ghosts[i] == g {
				if pt := e.s.pkgTypes(path); pt != nil {
					return pt
				}
			}
		}
	}
	return e.pkg
}

// ghostT describes the type of a ghost value: map[K]V (total SMT array), set[K] (array to Bool),
// possibly nested; a leaf is a Go type.
type ghostT struct {
	Key  types.Type
	Val  types.Type // leaf value type (nil if Next != nil)
	Next *ghostT
}

func (g *ghostT) valSort() Sort {
	if g.Next != nil {
		return g.Next.sort()
	}
	return sortOf(g.Val)
}
func (g *ghostT) sort() Sort { return ArrSort(sortOf(g.Key), g.valSort()) }

// parseGhostType: nil result means a plain Go type (scalar ghost).
func (P *Prog) parseGhostType(pkg *types.Package, s string) *ghostT {
	s = strings.TrimSpace(s)
	var keyEnd int
	switch {
	case strings.HasPrefix(s, "set["):
		depth := 0
		for i := 3; i < len(s); i++ {
			if s[i] == '[' {
				depth++
			}
			if s[i] == ']' {
				depth--
				if depth == 0 {
					return &ghostT{Key: P.resolveType(pkg, s[4:i]), Val: types.Typ[types.Bool]}
				}
			}
		}
	case strings.HasPrefix(s, "map["):
		depth := 0
		for i := 3; i < len(s); i++ {
			if s[i] == '[' {
				depth++
			}
			if s[i] == ']' {
				depth--
				if depth == 0 {
					keyEnd = i
					break
				}
			}
		}
		g := &ghostT{Key: P.resolveType(pkg, s[4:keyEnd])}
		rest := strings.TrimSpace(s[keyEnd+1:])
		if strings.HasPrefix(rest, "map[") || strings.HasPrefix(rest, "set[") {
			g.Next = P.parseGhostType(pkg, rest)
		} else {
			g.Val = P.resolveType(pkg, rest)
		}
		return g
	}
	return nil
}

func (e *Env) ghostVal(g *GhostDecl) EVal {
	gp := e.ghostPkg(g)
	if gt := e.s.P.parseGhostType(gp, g.Type); gt != nil {
		v := EVal{T: e.heap(ghostKey(g.Name), gt.sort()), GKey: gt.Key, GVal: gt.Val, GT: gt}
		return v
	}
	t := e.s.P.resolveTypeIn(gp, e.spec, g.Type)
	return EVal{T: e.heap(ghostKey(g.Name), sortOf(t)), Ty: t}
}

func (P *Prog) resolveTypeIn(pkg *types.Package, spec *PkgSpec, s string) types.Type {
	return P.resolveType(pkg, s)
}

func (e *Env) eval(x Expr) EVal {
	switch n := x.(type) {
	case *EInt:
		return EVal{T: BigLit(n.V), Ty: types.Typ[types.Int]}
	case *EStr:
		return EVal{T: e.s.strLit(n.V), Ty: types.Typ[types.String]}
	case *EBool:
		return EVal{T: BoolLit(n.V), Ty: types.Typ[types.Bool]}
	case *ENil:
		return EVal{T: TZero, IsNil: true}
	case *EIdent:
		return e.ident(n.Name)
	case *EUnary:
		v := e.eval(n.X)
		if n.Op == "!" {
			return EVal{T: Not(v.T), Ty: types.Typ[types.Bool]}
		}
		return EVal{T: mk(SInt, "-", v.T), Ty: v.Ty}
	case *ECond:
		c := e.eval(n.C)
		a, b := e.eval(n.A), e.eval(n.B)
		a, b = e.coerceNil(a, b)
		return EVal{T: Ite(c.T, a.T, b.T), Ty: a.Ty}
	case *EBinary:
		return e.binary(n)
	case *EField:
		return e.field(n)
	case *EIndex:
		return e.index(n)
	case *ECall:
		return e.call(n)
	case *EQuant:
		c := e.child()
		var decls []string
		for _, qv := range n.Vars {
			t := e.s.P.resolveType(e.pkg, qv.Type)
			name := "q_" + sanitize(qv.Name) + "_" + strconv.Itoa(e.depth)
			c.bound[qv.Name] = EVal{T: Term{name, sortOf(t)}, Ty: t}
			decls = append(decls, fmt.Sprintf("(%s %s)", name, sortOf(t)))
		}
		c.depth = e.depth + 1
		body := c.eval(n.Body)
		if body.T.Sort != SBool {
			fatalf("%s: quantifier body is not boolean", e.s.name)
		}
		q := "exists"
		if n.Forall {
			q = "forall"
		}
		return EVal{T: Term{fmt.Sprintf("(%s (%s) %s)", q, strings.Join(decls, " "), body.T.S), SBool}, Ty: types.Typ[types.Bool]}
	}
	fatalf("%s: cannot evaluate specification expression %T", e.s.name, x)
	return EVal{}
}

func (e *Env) ident(name string) EVal {
	if v, ok := e.bound[name]; ok {
		return v
	}
	if name == "result" {
		if len(e.result) == 0 {
			fatalf("%s: 'result' used where there is none", e.s.name)
		}
		return e.result[0]
	}
	if strings.HasPrefix(name, "result#") {
		i, _ := strconv.Atoi(name[7:])
		if i >= len(e.result) {
			fatalf("%s: %s out of range", e.s.name, name)
		}
		return e.result[i]
	}
	if v, ok := e.vars[name]; ok {
		return v
	}
	if e.lookup != nil {
		if v, ok := e.lookup(name); ok {
			return v
		}
	}
	if gl, t, ok := e.s.ghostLocal(e.st, name); ok {
		return EVal{T: gl, Ty: t}
	}
	if g := e.ghostDecl(name); g != nil {
		return e.ghostVal(g)
	}
	if c, ok := e.spec.Consts[name]; ok {
		return e.eval(mustExpr(c, "const", 0))
	}
	if name == "$brk" {
		return EVal{T: e.heap("$brk", SInt), Ty: types.Typ[types.Int]}
	}
	// Go package-level objects
	if e.pkg != nil {
		if o := e.pkg.Scope().Lookup(name); o != nil {
			switch ob := o.(type) {
			case *types.Const:
				return e.constVal(ob)
			case *types.Var:
				key := "Glob_" + sanitize(shortPkgOr(e.pkg.Path())) + "_" + name
				if isStructLike(ob.Type()) {
					return EVal{T: e.s.D.Const("globref_"+key, SInt), Ty: ob.Type()}
				}
				return EVal{T: Select(e.heap(key, ArrSort(SInt, sortOf(ob.Type()))), TZero), Ty: ob.Type()}
			case *types.TypeName:
				return EVal{TypeName: ob.Type()}
			}
		}
	}
	// imported package (for pkg.Type in frames)
	if e.pkg != nil {
		for _, imp := range e.pkg.Imports() {
			if imp.Name() == name {
				return EVal{Pkg: imp}
			}
		}
	}
	for path, sp := range e.s.P.pkgs {
		if shortPkg(path) == name {
			return EVal{Pkg: sp.Pkg}
		}
	}
	for _, pp := range e.s.P.prog.AllPackages() {
		if pp.Pkg.Name() == name {
			return EVal{Pkg: pp.Pkg}
		}
	}
	fatalf("%s: unknown identifier %q in specification", e.s.name, name)
	return EVal{}
}

func (e *Env) constVal(c *types.Const) EVal {
	switch c.Val().Kind() {
	case constant.Int:
		return EVal{T: BigLit(c.Val().ExactString()), Ty: c.Type()}
	case constant.Bool:
		return EVal{T: BoolLit(constant.BoolVal(c.Val())), Ty: c.Type()}
	case constant.String:
		return EVal{T: e.s.strLit(constant.StringVal(c.Val())), Ty: c.Type()}
	}
	fatalf("%s: unsupported constant %s", e.s.name, c.Name())
	return EVal{}
}

func (e *Env) coerceNil(a, b EVal) (EVal, EVal) {
	if a.IsNil && !b.IsNil {
		a = EVal{T: zeroTerm(b.T.Sort), Ty: b.Ty}
	}
	if b.IsNil && !a.IsNil {
		b = EVal{T: zeroTerm(a.T.Sort), Ty: a.Ty}
	}
	return a, b
}

func (e *Env) binary(n *EBinary) EVal {
	boolT := types.Typ[types.Bool]
	switch n.Op {
	case "&&":
		return EVal{T: And(e.eval(n.L).T, e.eval(n.R).T), Ty: boolT}
	case "||":
		return EVal{T: Or(e.eval(n.L).T, e.eval(n.R).T), Ty: boolT}
	case "==>":
		return EVal{T: Implies(e.eval(n.L).T, e.eval(n.R).T), Ty: boolT}
	case "<==>":
		return EVal{T: Eq(e.eval(n.L).T, e.eval(n.R).T), Ty: boolT}
	case "in":
		k := e.eval(n.L)
		m := e.eval(n.R)
		if m.GKey != nil {
			return EVal{T: Select(m.T, k.T), Ty: boolT}
		}
		mt, ok := m.Ty.Underlying().(*types.Map)
		if !ok {
			fatalf("%s: 'in' on non-map", e.s.name)
		}
		dk, _, ds, _ := mapKeys(mt)
		return EVal{T: And(Ne(m.T, TZero), Select(Select(e.heap(dk, ds), m.T), k.T)), Ty: boolT}
	}
	l, r := e.eval(n.L), e.eval(n.R)
	switch n.Op {
	case "==", "!=":
		var t Term
		switch {
		case l.IsNil && r.IsNil:
			t = TTrue
		case l.IsNil:
			t = isNilTerm(r.T)
		case r.IsNil:
			t = isNilTerm(l.T)
		default:
			if l.T.Sort != r.T.Sort {
				fatalf("%s: comparison of %s (%s) with %s (%s)", e.s.name, l.T.S, l.T.Sort, r.T.S, r.T.Sort)
			}
			t = Eq(l.T, r.T)
		}
		if n.Op == "!=" {
			t = Not(t)
		}
		return EVal{T: t, Ty: boolT}
	case "<", "<=", ">", ">=":
		return EVal{T: mk(SBool, n.Op, l.T, r.T), Ty: boolT}
	case "+":
		if l.T.Sort == SStr {
			return EVal{T: mk(SStr, "strcat", l.T, r.T), Ty: l.Ty}
		}
		return EVal{T: Add(l.T, r.T), Ty: l.Ty}
	case "-":
		return EVal{T: Sub(l.T, r.T), Ty: l.Ty}
	}
	fatalf("%s: unsupported operator %s", e.s.name, n.Op)
	return EVal{}
}

func isNilTerm(t Term) Term {
	switch t.Sort {
	case SInt:
		return Eq(t, TZero)
	case SSlice:
		return Eq(SArr(t), TZero)
	case SIface:
		return Eq(ITag(t), TZero)
	}
	panic("isNil on " + string(t.Sort))
}

func structOf(t types.Type) (types.Type, *types.Struct) {
	if p, ok := t.Underlying().(*types.Pointer); ok {
		t = p.Elem()
	}
	st, ok := t.Underlying().(*types.Struct)
	if !ok {
		return nil, nil
	}
	return t, st
}

func fieldIndex(st *types.Struct, name string) int {
	for i := 0; i < st.NumFields(); i++ {
		if st.Field(i).Name() == name {
			return i
		}
	}
	return -1
}

func (e *Env) field(n *EField) EVal {
	x := e.eval(n.X)
	if x.Pkg != nil {
		o := x.Pkg.Scope().Lookup(n.Name)
		switch ob := o.(type) {
		case *types.TypeName:
			return EVal{TypeName: ob.Type()}
		case *types.Const:
			return e.constVal(ob)
		case *types.Var:
			key := "Glob_" + sanitize(shortPkgOr(x.Pkg.Path())) + "_" + n.Name
			return EVal{T: Select(e.heap(key, ArrSort(SInt, sortOf(ob.Type()))), TZero), Ty: ob.Type()}
		}
		fatalf("%s: package %s has no %s", e.s.name, x.Pkg.Path(), n.Name)
	}
	if x.TypeName != nil {
		// Type.Field: the whole field array (used in modifies / frame clauses)
		t, st := structOf(x.TypeName)
		i := fieldIndex(st, n.Name)
		if i < 0 {
			fatalf("%s: type %s has no field %s", e.s.name, x.TypeName, n.Name)
		}
		k, so := fieldKey(t, i)
		return EVal{T: e.heap(k, so), GKey: types.NewPointer(t), GVal: st.Field(i).Type()}
	}
	if x.Ty == nil {
		fatalf("%s: field %s of an untyped specification value", e.s.name, n.Name)
	}
	t, st := structOf(x.Ty)
	if st == nil {
		fatalf("%s: .%s on non-struct type %s", e.s.name, n.Name, x.Ty)
	}
	i := fieldIndex(st, n.Name)
	if i < 0 {
		// promoted field through an embedded struct
		for j := 0; j < st.NumFields(); j++ {
			if st.Field(j).Embedded() {
				if _, inner := structOf(st.Field(j).Type()); inner != nil && fieldIndex(inner, n.Name) >= 0 {
					sub := e.field(&EField{n.X, st.Field(j).Name()})
					return e.fieldOf(sub, n.Name)
				}
			}
		}
		fatalf("%s: type %s has no field %s", e.s.name, t, n.Name)
	}
	ft := st.Field(i).Type()
	if isStructLike(ft) {
		return EVal{T: e.s.subRef(e.st, t, i, x.T), Ty: ft}
	}
	k, so := fieldKey(t, i)
	return EVal{T: Select(e.heap(k, so), x.T), Ty: ft}
}

func (e *Env) fieldOf(x EVal, name string) EVal {
	c := e.child()
	c.bound["$tmp"] = x
	return c.field(&EField{&EIdent{"$tmp"}, name})
}

func (e *Env) index(n *EIndex) EVal {
	x := e.eval(n.X)
	i := e.eval(n.I)
	if x.GKey != nil {
		if x.GT != nil && x.GT.Next != nil {
			n := x.GT.Next
			return EVal{T: Select(x.T, i.T), GKey: n.Key, GVal: n.Val, GT: n}
		}
		return EVal{T: Select(x.T, i.T), Ty: x.GVal}
	}
	if x.Ty == nil {
		fatalf("%s: indexing an untyped specification value", e.s.name)
	}
	switch u := x.Ty.Underlying().(type) {
	case *types.Map:
		dk, vk, ds, vs := mapKeys(u)
		in := And(Ne(x.T, TZero), Select(Select(e.heap(dk, ds), x.T), i.T))
		return EVal{T: Ite(in, Select(Select(e.heap(vk, vs), x.T), i.T), zeroTerm(sortOf(u.Elem()))), Ty: u.Elem()}
	case *types.Slice:
		k, so := elemKey(u.Elem())
		return EVal{T: Select(Select(e.heap(k, so), SArr(x.T)), SIdx(x.T, i.T)), Ty: u.Elem()}
	}
	fatalf("%s: cannot index %s", e.s.name, x.Ty)
	return EVal{}
}

func (e *Env) call(n *ECall) EVal {
	boolT := types.Typ[types.Bool]
	intT := types.Typ[types.Int]
	switch n.Fun {
	case "old":
		c := e.child()
		c.inOld = true
		return c.eval(n.Args[0])
	case "len":
		x := e.eval(n.Args[0])
		switch x.T.Sort {
		case SSlice:
			return EVal{T: SLen(x.T), Ty: intT}
		case SStr:
			return EVal{T: mk(SInt, "strlen", x.T), Ty: intT}
		}
		if mt, ok := x.Ty.Underlying().(*types.Map); ok {
			dk, _, ds, _ := mapKeys(mt)
			name := "card_" + sanitize(string(elemSortOf(ds)))
			e.s.D.Fun(name, []Sort{elemSortOf(ds)}, SInt)
			return EVal{T: mk(SInt, name, Select(e.heap(dk, ds), x.T)), Ty: intT}
		}
		fatalf("%s: len of %s", e.s.name, x.T.Sort)
	case "fresh":
		// allocated by this call / function: above the old allocation mark
		x := e.eval(n.Args[0])
		if x.T.Sort == SSlice {
			x.T = SArr(x.T) // a fresh slice has a fresh backing array
		}
		c := e.child()
		c.inOld = true
		return EVal{T: Lt(c.heap("$brk", SInt), x.T), Ty: boolT}
	case "allocated":
		x := e.eval(n.Args[0])
		if x.T.Sort == SSlice {
			x.T = SArr(x.T)
		}
		return EVal{T: And(Lt(TZero, x.T), Le(x.T, e.heap("$brk", SInt))), Ty: boolT}
	case "tail":
		// tail(s, k): the slice s[k:]
		x, k := e.eval(n.Args[0]), e.eval(n.Args[1])
		return EVal{T: MkSlice(SArr(x.T), mk(SInt, "+", SOff(x.T), k.T), mk(SInt, "-", SLen(x.T), k.T), mk(SInt, "-", SCap(x.T), k.T)), Ty: x.Ty}
	case "closed":
		// closed(ch): channel ch has been observed closed (a receive returned ok == false)
		x := e.eval(n.Args[0])
		return EVal{T: Select(e.s.H(e.st, "G_$chanClosed", ArrSort(SInt, SBool)), x.T), Ty: boolT}
	case "seqeq":
		// two slices hold the same sequence
		a, b := e.eval(n.Args[0]), e.eval(n.Args[1])
		ea := e.elemAt(a)
		eb := e.elemAt(b)
		q := Term{"j!s", SInt}
		body := Implies(And(Le(TZero, q), Lt(q, SLen(a.T))), Eq(ea(q), eb(q)))
		return EVal{T: And(Eq(SLen(a.T), SLen(b.T)), Term{fmt.Sprintf("(forall ((j!s Int)) %s)", body.S), SBool}), Ty: boolT}
	case "typeof":
		x := e.eval(n.Args[0])
		return EVal{T: ITag(x.T), Ty: intT}
	case "tag":
		// tag(T): dynamic type tag of Go type T
		id, ok := n.Args[0].(*EIdent)
		var tstr string
		if ok {
			tstr = id.Name
		} else if s, ok := n.Args[0].(*EStr); ok {
			tstr = s.V
		}
		t := e.s.P.resolveType(e.pkg, tstr)
		return EVal{T: IntLit(int64(e.s.P.tagOf(t))), Ty: intT}
	case "tostring":
		// string(b) for a byte slice b (the conversion function the code uses)
		x := e.eval(n.Args[0])
		e.s.D.Fun("conv_Slice_to_string", []Sort{SSlice}, SStr)
		return EVal{T: mk(SStr, "conv_Slice_to_string", x.T), Ty: types.Typ[types.String]}
	case "substr":
		x, lo, hi := e.eval(n.Args[0]), e.eval(n.Args[1]), e.eval(n.Args[2])
		e.s.D.Fun("substr", []Sort{SStr, SInt, SInt}, SStr)
		return EVal{T: mk(SStr, "substr", x.T, lo.T, hi.T), Ty: types.Typ[types.String]}
	case "iface":
		// iface(p): the interface value holding pointer p with its static type as dynamic type
		x := e.eval(n.Args[0])
		if x.Ty == nil {
			fatalf("%s: iface() of an untyped value", e.s.name)
		}
		return EVal{T: MkIface(IntLit(int64(e.s.P.tagOf(x.Ty))), e.s.box(x.T)), Ty: types.NewInterfaceType(nil, nil)}
	case "unboxstr":
		x := e.eval(n.Args[0])
		return EVal{T: mk(SStr, "unbox_Str", IVal(x.T)), Ty: types.Typ[types.String]}
	case "unboxptr":
		x := e.eval(n.Args[0])
		return EVal{T: IVal(x.T), Ty: nil}
	case "isstring":
		x := e.eval(n.Args[0])
		return EVal{T: Eq(ITag(x.T), IntLit(int64(e.s.P.tagOf(types.Typ[types.String])))), Ty: boolT}
	case "boxstr":
		x := e.eval(n.Args[0])
		return EVal{T: MkIface(IntLit(int64(e.s.P.tagOf(types.Typ[types.String]))), mk(SInt, "box_Str", x.T)), Ty: types.NewInterfaceType(nil, nil)}
	case "calls", "returned":
		id, ok := n.Args[0].(*EIdent)
		if !ok {
			fatalf("%s: calls(f) expects a function name", e.s.name)
		}
		key := n.Fun + ":" + id.Name
		for k, v := range e.st.counts {
			if strings.HasSuffix(k, id.Name) && strings.HasPrefix(k, n.Fun+":") {
				return EVal{T: v, Ty: intT}
			}
		}
		_ = key
		return EVal{T: TZero, Ty: intT}
	case "spawns":
		id := n.Args[0].(*EIdent)
		for k, v := range e.st.counts {
			if strings.HasPrefix(k, "go:") && strings.HasSuffix(k, id.Name) {
				return EVal{T: v, Ty: intT}
			}
		}
		return EVal{T: TZero, Ty: intT}
	}
	// predicates
	if p, psp := e.findPredSpec(n.Fun); p != nil {
		if len(p.Params) != len(n.Args) {
			fatalf("%s: predicate %s expects %d arguments", e.s.name, n.Fun, len(p.Params))
		}
		c := e.child()
		if psp != nil && psp != e.spec {
			// predicates are evaluated in the scope of the package that defines them
			if pt := e.s.pkgTypes(psp.Path); pt != nil {
				c.pkg, c.spec = pt, psp
			}
		}
		c.vars = map[string]EVal{}
		c.lookup = nil
		c.result = nil
		nb := map[string]EVal{}
		for i, prm := range p.Params {
			nb[prm.Name] = e.eval(n.Args[i])
			if nb[prm.Name].IsNil {
				t := e.s.P.resolveType(c.pkg, prm.Type)
				nb[prm.Name] = EVal{T: zeroTerm(sortOf(t)), Ty: t}
			} else if nb[prm.Name].Ty == nil && nb[prm.Name].GKey == nil {
				v := nb[prm.Name]
				v.Ty = e.s.P.resolveType(c.pkg, prm.Type)
				nb[prm.Name] = v
			}
		}
		c.bound = nb
		c.depth = e.depth + 10
		return c.eval(p.Body)
	}
	// uninterpreted spec functions
	if f, fsp := e.findFunSpec(n.Fun); f != nil {
		var sorts []Sort
		var args []Term
		fpkg := e.pkg
		if fsp != nil {
			if pt := e.s.pkgTypes(fsp.Path); pt != nil {
				fpkg = pt
			}
		}
		for i, prm := range f.Params {
			t := e.s.P.resolveType(fpkg, prm.Type)
			sorts = append(sorts, sortOf(t))
			a := e.eval(n.Args[i])
			if a.IsNil {
				a.T = zeroTerm(sortOf(t))
			}
			args = append(args, a.T)
		}
		rt := e.s.P.resolveType(fpkg, f.Result)
		e.s.D.Fun("sf_"+f.Name, sorts, sortOf(rt))
		e.s.useAxioms(e)
		if len(args) == 0 {
			return EVal{T: Term{"sf_" + f.Name, sortOf(rt)}, Ty: rt}
		}
		return EVal{T: mk(sortOf(rt), "sf_"+f.Name, args...), Ty: rt}
	}
	fatalf("%s: unknown function or predicate %q in specification", e.s.name, n.Fun)
	return EVal{}
}

func (e *Env) elemAt(a EVal) func(i Term) Term {
	sl, ok := a.Ty.Underlying().(*types.Slice)
	if !ok {
		fatalf("%s: seqeq on non-slice", e.s.name)
	}
	k, so := elemKey(sl.Elem())
	E := e.heap(k, so)
	return func(i Term) Term { return Select(Select(E, SArr(a.T)), SIdx(a.T, i)) }
}

func (e *Env) findPredSpec(name string) (*Pred, *PkgSpec) {
	if p := e.spec.Preds[name]; p != nil {
		return p, e.spec
	}
	for _, sp := range e.s.P.specs {
		if p := sp.Preds[name]; p != nil {
			return p, sp
		}
	}
	return nil, nil
}

func (e *Env) findPred(name string) *Pred {
	if p := e.spec.Preds[name]; p != nil {
		return p
	}
	for _, sp := range e.s.P.specs {
		if p := sp.Preds[name]; p != nil {
			return p
		}
	}
	return nil
}
func (e *Env) findFunSpec(name string) (*FunDecl, *PkgSpec) {
	if f := e.spec.Funs[name]; f != nil {
		return f, e.spec
	}
	for _, sp := range e.s.P.specs {
		if f := sp.Funs[name]; f != nil {
			return f, sp
		}
	}
	return nil, nil
}

func (e *Env) findFun(name string) *FunDecl {
	if f := e.spec.Funs[name]; f != nil {
		return f
	}
	for _, sp := range e.s.P.specs {
		if f := sp.Funs[name]; f != nil {
			return f
		}
	}
	return nil
}

// useAxioms adds the axioms of every package spec that declares spec functions
// (once per session).
func (s *Session) useAxioms(e *Env) {
	if s.D.Has("axioms-loaded") {
		return
	}
	s.D.Add("axioms-loaded", "; spec axioms")
	for path, sp := range s.P.specs {
		for i, ax := range sp.Axioms {
			env := &Env{s: s, pkg: s.pkgTypes(path), spec: sp, st: e.st, vars: map[string]EVal{}, bound: map[string]EVal{}}
			t := env.eval(ax.E)
			s.D.Axiom(fmt.Sprintf("%s#%d", path, i), t.T.S)
			s.note("axiom " + path + ": " + ax.Src)
		}
	}
}

func (s *Session) pkgTypes(path string) *types.Package {
	if p := s.P.pkgs[path]; p != nil {
		return p.Pkg
	}
	for _, p := range s.P.prog.AllPackages() {
		if p.Pkg.Path() == path {
			return p.Pkg
		}
	}
	return nil
}

// ---------------------------------------------------------------- environments

// funcEnv: requires/ensures of fn: parameter names denote entry values.
func (s *Session) funcEnv(st *State, fr *Frame, results []Value) *Env {
	env := &Env{s: s, pkg: s.fn.Pkg.Pkg, spec: s.spec, st: st, vars: map[string]EVal{}, bound: map[string]EVal{}, old: fr.entry}
	for _, p := range s.fn.Params {
		env.vars[p.Name()] = EVal{T: fr.params[p.Name()], Ty: p.Type()}
	}
	for _, fv := range s.fn.FreeVars {
		// free variables are pointers to captured cells: name denotes the entry content
		if t, ok := fr.params["$fv:"+fv.Name()]; ok {
			env.vars[fv.Name()] = EVal{T: t, Ty: fv.Type().Underlying().(*types.Pointer).Elem()}
		}
	}
	sig := s.fn.Signature
	for i, r := range results {
		env.result = append(env.result, EVal{T: s.asTerm(r, sig.Results().At(i).Type()), Ty: sig.Results().At(i).Type()})
	}
	// named results
	for i := 0; i < sig.Results().Len() && i < len(env.result); i++ {
		if n := sig.Results().At(i).Name(); n != "" && n != "_" {
			if _, clash := env.vars[n]; !clash {
				env.vars[n] = env.result[i]
			}
		}
	}
	s.addParamAliases(env, s.fn)
	return env
}

// allocInScope: the local variable called name that Go's scoping rules select at pos (nil when there
// is none, or when it is not an Alloc of this function, e.g. a parameter).
func (s *Session) allocInScope(name string, pos token.Pos) *ssa.Alloc {
	if s.fn == nil || s.fn.Pkg == nil || s.fn.Pkg.Pkg == nil {
		return nil
	}
	sc := s.fn.Pkg.Pkg.Scope().Innermost(pos)
	if sc == nil {
		return nil
	}
	_, obj := sc.LookupParent(name, pos)
	if obj == nil {
		return nil
	}
	var found *ssa.Alloc
	cnt := 0
	for _, b := range s.fn.Blocks {
		for _, in := range b.Instrs {
			if a, ok := in.(*ssa.Alloc); ok && a.Comment == name {
				cnt++
				if a.Pos() == obj.Pos() {
					found = a
				}
			}
		}
	}
	if cnt < 2 {
		return nil
	}
	return found
}

// callerEnv: invariants, callsite clauses, ghost updates: names denote the
// current values of the function's variables.
func (s *Session) callerEnv(st *State) *Env {
	fr := st.fr
	for fr.inline && fr.parent != nil {
		fr = fr.parent
	}
	env := &Env{s: s, pkg: s.fn.Pkg.Pkg, spec: s.spec, st: st, vars: map[string]EVal{}, bound: map[string]EVal{}, old: fr.entry}
	lookup0 := func(name string) (EVal, bool) {
		ord := 1
		base := name
		if i := strings.Index(name, "#"); i > 0 {
			base = name[:i]
			ord, _ = strconv.Atoi(name[i+1:])
		}
		if strings.HasSuffix(base, "0") && len(base) > 1 {
			// x0: entry value of parameter x
			if t, ok := fr.params[base[:len(base)-1]]; ok {
				for _, p := range s.fn.Params {
					if p.Name() == base[:len(base)-1] {
						return EVal{T: t, Ty: p.Type()}, true
					}
				}
			}
			if t, ok := fr.params["$fv:"+base[:len(base)-1]]; ok {
				for _, fv := range s.fn.FreeVars {
					if fv.Name() == base[:len(base)-1] {
						return EVal{T: t, Ty: fv.Type().Underlying().(*types.Pointer).Elem()}, true
					}
				}
			}
		}
		// local variables (Allocs by source name, in declaration order). Without an explicit ordinal, a
		// callsite clause means the variable of that name that is in scope at the call (Go's own
		// scoping): five loops may each declare their own k.
		var scoped *ssa.Alloc
		if !strings.Contains(name, "#") && env.pos.IsValid() {
			scoped = s.allocInScope(base, env.pos)
		}
		n := 0
		undefinedLocal := false
		for _, b := range s.fn.Blocks {
			for _, in := range b.Instrs {
				a, ok := in.(*ssa.Alloc)
				if !ok || a.Comment != base {
					continue
				}
				n++
				if scoped != nil {
					if a != scoped {
						continue
					}
				} else if n != ord {
					continue
				}
				t := a.Type().Underlying().(*types.Pointer).Elem()
				ptr, defined := fr.regs[a]
				if !defined {
					undefinedLocal = true
					continue
				}
				switch p := ptr.(type) {
				case *CellPtr:
					return EVal{T: p.Fr.cells[p.A], Ty: t}, true
				case Term:
					if isStructLike(t) {
						return EVal{T: p, Ty: t}, true
					}
					k, so := boxKey(t)
					return EVal{T: Select(env.heap(k, so), p), Ty: t}, true
				}
			}
		}
		for _, p := range s.fn.Params {
			if p.Name() == base {
				return EVal{T: fr.params[base], Ty: p.Type()}, true
			}
		}
		for _, fv := range s.fn.FreeVars {
			if fv.Name() == base {
				t := fv.Type().Underlying().(*types.Pointer).Elem()
				ptr := fr.regs[fv]
				switch p := ptr.(type) {
				case Term:
					if isStructLike(t) {
						return EVal{T: p, Ty: t}, true
					}
					k, so := boxKey(t)
					return EVal{T: Select(env.heap(k, so), p), Ty: t}, true
				case *CellPtr:
					return EVal{T: p.Fr.cells[p.A], Ty: t}, true
				}
			}
		}
		if undefinedLocal {
			fatalf("%s: specification refers to %s, which is not defined on this path", s.name, name)
		}
		return EVal{}, false
	}
	env.lookup = func(name string) (EVal, bool) {
		if v, ok := lookup0(name); ok {
			return v, true
		}
		// the identifier may be the name a parameter or local had when the contract was written (names.go)
		ord := 1
		base := name
		if i := strings.Index(name, "#"); i > 0 {
			base = name[:i]
			ord, _ = strconv.Atoi(name[i+1:])
		}
		al := s.P.paramAliases(s.fn)
		if cur, ok := al[base]; ok {
			if v, ok := lookup0(cur); ok {
				s.note(fmt.Sprintf("contract of %s: identifier %q resolved to the renamed parameter/result %q (names.json)", s.name, base, cur))
				return v, true
			}
		}
		if strings.HasSuffix(base, "0") && len(base) > 1 {
			if cur, ok := al[base[:len(base)-1]]; ok {
				if v, ok := lookup0(cur + "0"); ok {
					s.note(fmt.Sprintf("contract of %s: identifier %q resolved to the renamed parameter %q (names.json)", s.name, base, cur+"0"))
					return v, true
				}
			}
		}
		if cur, k := s.P.localAlias(s.fn, base, ord); cur != "" {
			if v, ok := lookup0(fmt.Sprintf("%s#%d", cur, k)); ok {
				s.note(fmt.Sprintf("contract of %s: identifier %q resolved to the renamed local %q (names.json)", s.name, name, cur))
				return v, true
			}
		}
		return EVal{}, false
	}
	return env
}

// calleeEnv binds the parameter names of a callee (or argN / recv) to the
// argument values of this call.
func (s *Session) calleeEnv(st *State, con *Contract, callee *ssa.Function, args []Value, withBind bool) *Env {
	pkgT := s.pkgTypes(con.Pkg)
	env := &Env{s: s, pkg: pkgT, spec: s.specOf(con.Pkg), st: st, vars: map[string]EVal{}, bound: map[string]EVal{}}
	return env
}

func (s *Session) bindArgs(env *Env, sig *types.Signature, callee *ssa.Function, args []Value, invoke bool) {
	i := 0
	if callee != nil && len(callee.FreeVars) > 0 && len(args) == len(callee.FreeVars)+len(callee.Params) {
		for _, fv := range callee.FreeVars {
			t := fv.Type().Underlying().(*types.Pointer).Elem()
			// the captured variable's current content
			var cur Term
			switch p := args[i].(type) {
			case *CellPtr:
				cur = p.Fr.cells[p.A]
			case Term:
				if isStructLike(t) {
					cur = p
				} else {
					k, so := boxKey(t)
					cur = Select(s.H(env.st, k, so), p)
				}
			}
			env.vars[fv.Name()] = EVal{T: cur, Ty: t}
			i++
		}
	}
	if sig.Recv() != nil {
		t := sig.Recv().Type()
		v := EVal{T: s.asTerm(args[i], t), Ty: t}
		if n := sig.Recv().Name(); n != "" && n != "_" {
			env.vars[n] = v
		}
		env.vars["recv"] = v
		i++
	} else if invoke {
		env.vars["recv"] = EVal{T: s.asTerm(args[i], nil), Ty: nil}
		i++
	}
	for j := 0; j < sig.Params().Len(); j++ {
		p := sig.Params().At(j)
		if i >= len(args) {
			break
		}
		v := EVal{T: s.asTerm(args[i], p.Type()), Ty: p.Type()}
		if n := p.Name(); n != "" && n != "_" {
			env.vars[n] = v
		}
		env.vars[fmt.Sprintf("arg%d", j)] = v
		i++
	}
	s.addParamAliases(env, callee)
}

// ghostLocal: per-activation ghost variable of the function under verification.
func (s *Session) ghostLocal(st *State, name string) (Term, types.Type, bool) {
	if s.con == nil || st == nil {
		return Term{}, nil, false
	}
	for _, g := range s.con.GhostLocals {
		if g.Name == name {
			fr := st.fr
			for fr.parent != nil {
				fr = fr.parent
			}
			t := s.P.resolveType(s.fn.Pkg.Pkg, g.Type)
			if v, ok := fr.glocals[name]; ok {
				return v, t, true
			}
			return zeroTerm(sortOf(t)), t, true
		}
	}
	return Term{}, nil, false
}
