package main

// Rely-guarantee layer for declared shared fields (filled in later).

type rgInfo struct{}

func (s *Session) rgInit()                            {}
func (s *Session) rgEntry(st *State)                  {}
func (s *Session) rgHavoc(st *State)                  {}
func (s *Session) rgAfterCall(st *State, old *HeapSnap) {}
func (s *Session) rgAtReturn(st *State)               {}
