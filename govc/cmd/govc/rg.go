package main

// Rely-guarantee layer for fields declared `shared` in a package's contracts.
//
//   shared Stage.Status transition <T(old,new,x)> closure <R(old,new,x)>
//   func F ... owns x *Stage :: <cond>
//
// Reads of a shared field are preceded by an interference step: the field's
// heap array is replaced by an arbitrary one that is R-related point-wise and
// equal on the objects this function owns. Writes must be T-steps on owned
// objects (obligations guar / own). Every contract clause that mentions a
// shared field must be stable under interference (obligation stable).

import (
	"fmt"
	"go/token"
	"go/types"
	"strings"

	"golang.org/x/tools/go/ssa"
)

type sharedField struct {
	key   string
	sort  Sort
	decl  *SharedDecl
	stype types.Type
	fidx  int
}

type rgInfo struct {
	fields []*sharedField
	owns   *OwnsSpec
	stableDone map[string]bool
	clean  map[string]bool // per state this would be better; conservatively reset on fork (see rgHavoc)
}

type OwnsSpec struct {
	Var  QVar
	Cond Expr
	Src  string
}

func (s *Session) rgInit() {
	var fields []*sharedField
	for _, sd := range s.spec.Shared {
		parts := strings.SplitN(sd.Field, ".", 2)
		if len(parts) != 2 {
			fatalf("shared %s: expected Type.Field", sd.Field)
		}
		t := s.P.resolveType(s.fn.Pkg.Pkg, parts[0])
		_, st := structOf(t)
		i := fieldIndex(st, parts[1])
		if i < 0 {
			fatalf("shared %s: no such field", sd.Field)
		}
		k, so := fieldKey(t, i)
		s.heapSort(k, so)
		fields = append(fields, &sharedField{key: k, sort: so, decl: sd, stype: t, fidx: i})
	}
	if len(fields) == 0 {
		return
	}
	s.rg = &rgInfo{fields: fields, stableDone: map[string]bool{}}
	if s.con != nil {
		for _, e := range s.con.Effects {
			if strings.HasPrefix(e, "owns ") {
				// owns x *T :: cond
				rest := strings.TrimSpace(e[5:])
				i := strings.Index(rest, "::")
				if i < 0 {
					fatalf("%s: bad owns clause %q", s.name, e)
				}
				f := strings.Fields(rest[:i])
				s.rg.owns = &OwnsSpec{Var: QVar{f[0], strings.Join(f[1:], "")}, Cond: mustExpr(rest[i+2:], s.con.File, s.con.Line), Src: rest}
			}
		}
	}
}

func (s *Session) sharedKey(key string) *sharedField {
	if s.rg == nil {
		return nil
	}
	for _, f := range s.rg.fields {
		if f.key == key {
			return f
		}
	}
	return nil
}

// ownsTerm: does the current function own object x (w.r.t. shared fields)?
func (s *Session) ownsTerm(st *State, f *sharedField, x Term) Term {
	if s.rg.owns == nil || f.decl.AnyWriter {
		return TFalse
	}
	env := s.callerEnv(st)
	t := s.P.resolveType(s.fn.Pkg.Pkg, s.rg.owns.Var.Type)
	if tt, _ := structOf(t); tt == nil || !types.Identical(tt, f.stype) {
		return TFalse
	}
	env.bound[s.rg.owns.Var.Name] = EVal{T: x, Ty: t}
	return s.evalBool(st, env, s.rg.owns.Cond, s.rg.owns.Src)
}

func (s *Session) relTerm(st *State, f *sharedField, e Expr, old, new, x Term) Term {
	env := s.callerEnv(st)
	env.lookup = nil
	env.vars = map[string]EVal{}
	ft := f.stype.Underlying().(*types.Struct).Field(f.fidx).Type()
	env.bound["old"] = EVal{T: old, Ty: ft}
	env.bound["new"] = EVal{T: new, Ty: ft}
	env.bound["x"] = EVal{T: x, Ty: types.NewPointer(f.stype)}
	return s.evalBool(st, env, e, "transition of "+f.decl.Field)
}

// relyStep returns a fresh array related to cur by the rely, and the assumption.
func (s *Session) relyStep(st *State, f *sharedField, cur Term) (Term, Term) {
	n := s.fresh(f.key+"_rely", f.sort)
	x := Term{"x!r", SInt}
	own := s.ownsTerm(st, f, x)
	r := s.relTerm(st, f, f.decl.Closure, Select(cur, x), Select(n, x), x)
	body := And(Implies(own, Eq(Select(n, x), Select(cur, x))), r)
	q := Term{fmt.Sprintf("(forall ((x!r Int)) (! %s :pattern ((select %s x!r))))", body.S, n.S), SBool}
	return n, q
}

// rgHavoc: an interference step on every shared field.
func (s *Session) rgHavoc(st *State) {
	if s.rg == nil {
		return
	}
	for _, f := range s.rg.fields {
		cur := s.H(st, f.key, f.sort)
		if strings.Contains(cur.S, "_rely!") && st.rgClean[f.key] == cur.S {
			continue // nothing was read or written since the last interference step
		}
		n, q := s.relyStep(st, f, cur)
		st.assume(q)
		st.heap[f.key] = n
		if st.rgClean == nil {
			st.rgClean = map[string]string{}
		}
		st.rgClean[f.key] = n.S
	}
}

func (s *Session) rgTouch(st *State, key string) {
	if st.rgClean != nil {
		delete(st.rgClean, key)
	}
}

func (s *Session) rgEntry(st *State) {}

func (s *Session) rgAfterCall(st *State, old *HeapSnap) { s.rgHavoc(st) }

func (s *Session) rgAtReturn(st *State) {}

// rgLoad / rgStore: accesses of a shared location.
func (s *Session) rgLoad(st *State, l *Loc) {
	if f := s.sharedKey(l.Key); f != nil {
		s.rgHavoc(st)
		s.rgTouch(st, l.Key)
	}
}

func (s *Session) rgStore(st *State, l *Loc, v Term, pos token.Pos) {
	f := s.sharedKey(l.Key)
	if f == nil {
		return
	}
	// the write happens at some moment: interference first
	s.rgHavoc(st)
	s.rgTouch(st, l.Key)
	cur := s.H(st, f.key, f.sort)
	x := l.Idx[0]
	n := s.oblOrd("guar(" + f.decl.Field + ")")
	if !f.decl.AnyWriter {
		s.check(st, "own", s.obl("own("+f.decl.Field+")#"+n, ""), s.ownsTerm(st, f, x), pos)
	}
	s.check(st, "guar", s.obl("guar("+f.decl.Field+")#"+n, ""), s.relTerm(st, f, f.decl.Transition, Select(cur, x), v, x), pos)
}

// oblOrd numbers obligations of the same kind by their static site (instruction order).
func (s *Session) oblOrd(kind string) string {
	return fmt.Sprintf("%d", s.siteOrd(kind))
}

func (s *Session) siteOrd(kind string) int {
	key := kind + "@" + s.curSite
	if n, ok := s.oblN[key]; ok {
		return n
	}
	s.oblN["#"+kind]++
	s.oblN[key] = s.oblN["#"+kind]
	return s.oblN[key]
}

// stable: clause (already evaluated to term t in state st) is preserved by an
// interference step.
func (s *Session) rgStable(st *State, name string, t Term, pos token.Pos) {
	if s.rg == nil || s.rg.stableDone[name] {
		return
	}
	mentions := false
	st2 := st.clone()
	t2 := t
	for _, f := range s.rg.fields {
		cur := s.H(st2, f.key, f.sort)
		if !containsToken(t.S, cur.S) {
			continue
		}
		mentions = true
		n, q := s.relyStep(st2, f, cur)
		st2.assume(q)
		t2 = Term{replaceToken(t2.S, cur.S, n.S), SBool}
	}
	if !mentions {
		return
	}
	s.rg.stableDone[name] = true
	st2.assume(t)
	s.check(st2, "stable", s.obl("stable("+name+")", ""), t2, pos)
}

func isTokChar(c byte) bool {
	return c != ' ' && c != '(' && c != ')' && c != '\n'
}

func containsToken(s, tok string) bool {
	for i := 0; ; {
		j := strings.Index(s[i:], tok)
		if j < 0 {
			return false
		}
		j += i
		e := j + len(tok)
		if (j == 0 || !isTokChar(s[j-1])) && (e == len(s) || !isTokChar(s[e])) {
			return true
		}
		i = j + 1
	}
}

func replaceToken(s, tok, by string) string {
	var b strings.Builder
	for i := 0; i < len(s); {
		j := strings.Index(s[i:], tok)
		if j < 0 {
			b.WriteString(s[i:])
			break
		}
		j += i
		e := j + len(tok)
		b.WriteString(s[i:j])
		if (j == 0 || !isTokChar(s[j-1])) && (e == len(s) || !isTokChar(s[e])) {
			b.WriteString(by)
		} else {
			b.WriteString(tok)
		}
		i = e
	}
	return b.String()
}

// atomicCall recognises sync/atomic loads and stores on a field address.
func (s *Session) atomicCall(st *State, callee *ssa.Function, args []Value, pos token.Pos) (Value, bool) {
	if callee.Pkg == nil || callee.Pkg.Pkg.Path() != "sync/atomic" {
		return nil, false
	}
	name := callee.Name()
	l, ok := args[0].(*Loc)
	if !ok {
		if t, isT := args[0].(Term); isT {
			if v, found := escapeTable[t.S]; found {
				l, ok = v.(*Loc)
			}
		}
	}
	if !ok {
		return nil, false
	}
	switch {
	case strings.HasPrefix(name, "Load"):
		s.rgLoad(st, l)
		v := s.loadLoc(st, l)
		st.assume(s.wellTyped(st, l.Obj, v))
		return v, true
	case strings.HasPrefix(name, "Store"):
		v := s.asTerm(args[1], l.Obj)
		s.rgStore(st, l, v, pos)
		s.storeLoc(st, l, v)
		return Unit{}, true
	}
	return nil, false
}
