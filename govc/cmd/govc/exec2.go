package main

import (
	"strings"
	"fmt"
	"go/token"
	"go/types"

	"golang.org/x/tools/go/ssa"
)

// ---------------------------------------------------------------- value lookup

func (s *Session) val(st *State, v ssa.Value) Value {
	switch x := v.(type) {
	case *ssa.Const:
		return s.constVal(x)
	case *ssa.Function:
		return &FuncRef{x}
	case *ssa.Global:
		t := x.Type().Underlying().(*types.Pointer).Elem()
		if isStructLike(t) {
			g := s.D.Const("globref_"+globalKey(x), SInt)
			st.assume(Ne(g, TZero)) // the address of a package-level variable is never nil
			return g
		}
		// address of a package-level variable: scalar heap entry
		l := &Loc{Key: globalKey(x), Sort: ArrSort(SInt, sortOf(t)), Idx: []Term{TZero}, Obj: t}
		if x.Pkg != nil && !strings.HasPrefix(x.Pkg.Pkg.Path(), modPath) && libNonNilVars[x.Pkg.Pkg.Path()+"."+x.Name()] {
			// well-known library variables that are set once at package initialisation and never nil
			v := s.loadLoc(st, l)
			if v.Sort == SIface {
				st.assume(Ne(ITag(v), TZero))
			} else if v.Sort == SInt {
				st.assume(Ne(v, TZero))
			}
		}
		return l
	case *ssa.Builtin:
		return x
	}
	for f := st.fr; f != nil; f = f.parent {
		if r, ok := f.regs[v]; ok {
			return r
		}
		if !f.inline {
			break
		}
	}
	if r, ok := st.fr.regs[v]; ok {
		return r
	}
	fatalf("%s: value %s (%T) not defined on this path", s.name, v.Name(), v)
	return nil
}

func (s *Session) term(st *State, v ssa.Value) Term {
	return s.asTerm(s.val(st, v), v.Type())
}

// ---------------------------------------------------------------- running a function body

type retK func(st *State, results []Value)

// execBlocks runs block b of the current frame (DFS over branches).
func (s *Session) execFrom(st *State, b *ssa.BasicBlock, from *ssa.BasicBlock) {
	fr := st.fr
	for {
		if s.shouldPark(st, b, from) {
			s.pending[b] = append(s.pending[b], parked{st, from})
			return
		}
		s.paths++
		if s.paths > s.maxPaths {
			fatalf("%s: more than %d paths; the function needs an intermediate cut", s.name, s.maxPaths)
		}
		// loop head handling (only in the function under verification)
		if li := s.loops[b]; li != nil && !fr.inline && b.Parent() == s.fn {
			if from != nil && b.Dominates(from) && li.blocks[from] {
				// back edge: invariant must be preserved
				s.checkInvariants(st, li, "inv.preserve")
				return
			}
			s.checkInvariants(st, li, "inv.init")
			s.havocLoop(st, li)
			s.assumeInvariants(st, li)
		} else if li := s.loopsOf(b); li != nil && fr.inline {
			fatalf("%s: inlined function %s contains a loop", s.name, b.Parent().Name())
		}
		// phis
		for _, in := range b.Instrs {
			phi, ok := in.(*ssa.Phi)
			if !ok {
				break
			}
			if s.loops[b] != nil {
				fr.regs[phi] = s.freshTyped(st, phi.Comment, phi.Type())
				continue
			}
			for i, p := range b.Preds {
				if p == from {
					fr.regs[phi] = s.val(st, phi.Edges[i])
				}
			}
		}
		for _, in := range b.Instrs {
			switch x := in.(type) {
			case *ssa.Phi, *ssa.DebugRef:
				continue
			case *ssa.If:
				c := s.term(st, x.Cond)
				st2 := st.clone()
				st.assume(c)
				st.path = append(st.path, "T")
				st2.assume(Not(c))
				st2.path = append(st2.path, "F")
				s.execFrom(st, b.Succs[0], b)
				s.execFrom(st2, b.Succs[1], b)
				return
			case *ssa.Jump:
				from, b = b, b.Succs[0]
				goto next
			case *ssa.Return:
				var res []Value
				for _, r := range x.Results {
					res = append(res, s.val(st, r))
				}
				k := fr.k
				k(st, res)
				return
			case *ssa.Panic:
				if !s.conFlag("maypanic") {
					s.check(st, "safe.panic", s.obl("safe.panic", ""), TFalse, x.Pos())
				}
				return
			case *ssa.RunDefers:
				s.runDefers(st, fr, len(fr.defers)-1, func(st *State) {
					// continue after rundefers in the same block
					s.execRest(st, b, in)
				})
				return
			case *ssa.Call:
				// calls may fork (inlined callee with branches): continue in CPS
				s.execCall(st, &x.Call, x, x.Pos(), func(st *State, res Value) {
					if x.Type() != nil {
						st.fr.regs[x] = res
					}
					s.execRest(st, b, in)
				})
				return
			default:
				if s.step(st, in) {
					return // path ended (infeasible / non-returning)
				}
			}
		}
		return
	next:
	}
}

func (s *Session) loopsOf(b *ssa.BasicBlock) *loopInfo {
	for _, succ := range b.Succs {
		if succ.Dominates(b) {
			return &loopInfo{}
		}
	}
	return nil
}

// execRest continues block b after instruction after.
func (s *Session) execRest(st *State, b *ssa.BasicBlock, after ssa.Instruction) {
	fr := st.fr
	started := false
	for _, in := range b.Instrs {
		if !started {
			if in == after {
				started = true
			}
			continue
		}
		switch x := in.(type) {
		case *ssa.DebugRef:
			continue
		case *ssa.If:
			c := s.term(st, x.Cond)
			st2 := st.clone()
			st.assume(c)
			st.path = append(st.path, "T")
			st2.assume(Not(c))
			st2.path = append(st2.path, "F")
			s.execFrom(st, b.Succs[0], b)
			s.execFrom(st2, b.Succs[1], b)
			return
		case *ssa.Jump:
			s.execFrom(st, b.Succs[0], b)
			return
		case *ssa.Return:
			var res []Value
			for _, r := range x.Results {
				res = append(res, s.val(st, r))
			}
			fr.k(st, res)
			return
		case *ssa.Panic:
			if !s.conFlag("maypanic") {
				s.check(st, "safe.panic", s.obl("safe.panic", ""), TFalse, x.Pos())
			}
			return
		case *ssa.RunDefers:
			s.runDefers(st, fr, len(fr.defers)-1, func(st *State) { s.execRest(st, b, in) })
			return
		case *ssa.Call:
			s.execCall(st, &x.Call, x, x.Pos(), func(st *State, res Value) {
				if x.Type() != nil {
					st.fr.regs[x] = res
				}
				s.execRest(st, b, in)
			})
			return
		default:
			if s.step(st, in) {
				return
			}
		}
	}
}

func (s *Session) conFlag(f string) bool { return s.con != nil && s.con.Flags[f] }

func (s *Session) runDefers(st *State, fr *Frame, i int, k func(st *State)) {
	if i < 0 {
		st.fr.defers = nil
		k(st)
		return
	}
	d := fr.defers[i]
	s.execCallWith(st, d.call, d.fnv, d.args, nil, d.pos, func(st *State, res Value) {
		s.runDefers(st, st.fr, i-1, k)
	})
}

// step executes a straight-line instruction. Returns true if the path ends.
func (s *Session) siteOf(st *State, in ssa.Instruction) string {
	id := fmt.Sprintf("%p", in)
	for f := st.fr; f != nil && f.inline; f = f.parent {
		id += "<" + f.site
	}
	return id
}

func (s *Session) step(st *State, in ssa.Instruction) bool {
	fr := st.fr
	s.curSite = s.siteOf(st, in)
	switch x := in.(type) {
	case *ssa.Alloc:
		t := x.Type().Underlying().(*types.Pointer).Elem()
		if isStructLike(t) {
			r := s.alloc(st, "new_"+typeKey(t))
			s.zeroStruct(st, t, r)
			fr.regs[x] = r
		} else if x.Heap {
			r := s.alloc(st, "box_"+x.Comment)
			k, so := boxKey(t)
			a := s.H(st, k, so)
			s.setH(st, k, so, Store(a, r, zeroTerm(sortOf(t))))
			fr.regs[x] = r
		} else {
			fr.cells[x] = zeroTerm(sortOf(t))
			fr.regs[x] = &CellPtr{x, fr}
		}
	case *ssa.Store:
		s.store(st, s.val(st, x.Addr), x.Val.Type(), s.val(st, x.Val), x.Pos(), addrName(x.Addr))
	case *ssa.UnOp:
		fr.regs[x] = s.unop(st, x)
	case *ssa.BinOp:
		fr.regs[x] = s.binop(st, x)
	case *ssa.FieldAddr:
		obj := s.term(st, x.X)
		stype := x.X.Type().Underlying().(*types.Pointer).Elem()
		fname := stype.Underlying().(*types.Struct).Field(x.Field).Name()
		s.check(st, "safe.nil", s.obl("safe.nil", "."+fname), Ne(obj, TZero), x.Pos())
		st.assume(Ne(obj, TZero))
		ft := stype.Underlying().(*types.Struct).Field(x.Field).Type()
		if isStructLike(ft) {
			fr.regs[x] = s.subRef(st, stype, x.Field, obj)
		} else {
			k, so := fieldKey(stype, x.Field)
			s.heapSort(k, so)
			fr.regs[x] = &Loc{Key: k, Sort: so, Idx: []Term{obj}, Obj: ft}
		}
	case *ssa.Field:
		obj := s.term(st, x.X)
		stype := x.X.Type()
		ft := stype.Underlying().(*types.Struct).Field(x.Field).Type()
		if isStructLike(ft) {
			fr.regs[x] = s.subRef(st, stype, x.Field, obj)
		} else {
			k, so := fieldKey(stype, x.Field)
			v := Select(s.H(st, k, so), obj)
			st.assume(s.wellTyped(st, ft, v))
			fr.regs[x] = v
		}
	case *ssa.IndexAddr:
		idx := s.term(st, x.Index)
		switch u := x.X.Type().Underlying().(type) {
		case *types.Slice:
			sl := s.term(st, x.X)
			s.check(st, "safe.index", s.obl("safe.index", x.X.Name()), And(Le(TZero, idx), Lt(idx, SLen(sl))), x.Pos())
			st.assume(And(Le(TZero, idx), Lt(idx, SLen(sl))))
			k, so := elemKey(u.Elem())
			s.heapSort(k, so)
			if isStructLike(u.Elem()) {
				ref := Select(Select(s.H(st, k, so), SArr(sl)), SIdx(sl, idx))
				st.assume(Ne(ref, TZero)) // struct-valued elements always exist
				fr.regs[x] = ref
			} else {
				fr.regs[x] = &Loc{Key: k, Sort: so, Idx: []Term{SArr(sl), SIdx(sl, idx)}, Obj: u.Elem()}
			}
		case *types.Pointer:
			arr := u.Elem().Underlying().(*types.Array)
			ref := s.term(st, x.X)
			s.check(st, "safe.nil", s.obl("safe.nil", x.X.Name()), Ne(ref, TZero), x.Pos())
			s.check(st, "safe.index", s.obl("safe.index", x.X.Name()), And(Le(TZero, idx), Lt(idx, IntLit(arr.Len()))), x.Pos())
			k, so := elemKey(arr.Elem())
			s.heapSort(k, so)
			if isStructLike(arr.Elem()) {
				fr.regs[x] = Select(Select(s.H(st, k, so), ref), idx)
			} else {
				fr.regs[x] = &Loc{Key: k, Sort: so, Idx: []Term{ref, idx}, Obj: arr.Elem()}
			}
		default:
			fatalf("%s: IndexAddr on %s", s.name, x.X.Type())
		}
	case *ssa.Index:
		idx := s.term(st, x.Index)
		switch u := x.X.Type().Underlying().(type) {
		case *types.Array:
			ref := s.term(st, x.X)
			s.check(st, "safe.index", s.obl("safe.index", x.X.Name()), And(Le(TZero, idx), Lt(idx, IntLit(u.Len()))), x.Pos())
			k, so := elemKey(u.Elem())
			fr.regs[x] = Select(Select(s.H(st, k, so), ref), idx)
		case *types.Basic: // string index
			str := s.term(st, x.X)
			s.check(st, "safe.index", s.obl("safe.index", x.X.Name()), And(Le(TZero, idx), Lt(idx, mk(SInt, "strlen", str))), x.Pos())
			s.D.Fun("strat", []Sort{SStr, SInt}, SInt)
			v := mk(SInt, "strat", str, idx)
			st.assume(And(Le(TZero, v), Le(v, IntLit(255))))
			fr.regs[x] = v
		default:
			fatalf("%s: Index on %s", s.name, x.X.Type())
		}
	case *ssa.Lookup:
		fr.regs[x] = s.lookup(st, x)
	case *ssa.MapUpdate:
		m := s.term(st, x.Map)
		mt := x.Map.Type().Underlying().(*types.Map)
		s.check(st, "safe.nilmap", s.obl("safe.nilmap", x.Map.Name()), Ne(m, TZero), x.Pos())
		st.assume(Ne(m, TZero))
		dk, vk, ds, vs := mapKeys(mt)
		key := s.term(st, x.Key)
		val := s.term(st, x.Value)
		D, V := s.H(st, dk, ds), s.H(st, vk, vs)
		s.setH(st, dk, ds, Store(D, m, Store(Select(D, m), key, TTrue)))
		s.setH(st, vk, vs, Store(V, m, Store(Select(V, m), key, val)))
	case *ssa.MakeMap:
		m := s.alloc(st, "map")
		mt := x.Type().Underlying().(*types.Map)
		dk, vk, ds, vs := mapKeys(mt)
		D, V := s.H(st, dk, ds), s.H(st, vk, vs)
		s.setH(st, dk, ds, Store(D, m, ConstArr(elemSortOf(ds), TFalse)))
		s.setH(st, vk, vs, Store(V, m, ConstArr(elemSortOf(vs), zeroTerm(sortOf(mt.Elem())))))
		fr.regs[x] = m
	case *ssa.MakeSlice:
		n := s.term(st, x.Len)
		c := s.term(st, x.Cap)
		s.check(st, "safe.makeslice", s.obl("safe.makeslice", ""), And(Le(TZero, n), Le(n, c)), x.Pos())
		a := s.alloc(st, "arr")
		et := x.Type().Underlying().(*types.Slice).Elem()
		k, so := elemKey(et)
		E := s.H(st, k, so)
		s.setH(st, k, so, Store(E, a, ConstArr(elemSortOf(so), zeroTerm(sortOf(et)))))
		fr.regs[x] = MkSlice(a, TZero, n, c)
	case *ssa.MakeChan:
		fr.regs[x] = s.alloc(st, "chan")
	case *ssa.MakeClosure:
		var bind []Value
		for _, b := range x.Bindings {
			bind = append(bind, s.val(st, b))
		}
		fr.regs[x] = &Closure{x.Fn.(*ssa.Function), bind}
	case *ssa.MakeInterface:
		v := s.term(st, x.X)
		tag := s.P.tagOf(x.X.Type())
		fr.regs[x] = MkIface(IntLit(int64(tag)), s.box(v))
	case *ssa.ChangeInterface:
		fr.regs[x] = s.val(st, x.X)
	case *ssa.ChangeType:
		fr.regs[x] = s.val(st, x.X)
	case *ssa.Convert:
		fr.regs[x] = s.convert(st, x)
	case *ssa.Slice:
		fr.regs[x] = s.sliceOp(st, x)
	case *ssa.TypeAssert:
		return s.typeAssert(st, x)
	case *ssa.Extract:
		tup, ok := s.val(st, x.Tuple).(Tuple)
		if !ok {
			fatalf("%s: extract from non-tuple %s", s.name, x.Tuple.Name())
		}
		fr.regs[x] = tup[x.Index]
	case *ssa.Range:
		s.iterN++
		it := &Iter{id: s.iterN}
		if mt, ok := x.X.Type().Underlying().(*types.Map); ok {
			it.IsMap, it.MT, it.M = true, mt, s.term(st, x.X)
			st.seen[it.id] = ConstArr(ArrSort(sortOf(mt.Key()), SBool), TFalse)
		} else {
			fatalf("%s: range over %s is not supported", s.name, x.X.Type())
		}
		fr.regs[x] = it
	case *ssa.Next:
		it := s.val(st, x.Iter).(*Iter)
		fr.regs[x] = s.next(st, it, x)
	case *ssa.Defer:
		var args []Value
		for _, a := range x.Call.Args {
			args = append(args, s.val(st, a))
		}
		var fnv Value
		if !x.Call.IsInvoke() {
			fnv = s.val(st, x.Call.Value)
		} else {
			fnv = s.val(st, x.Call.Value)
		}
		fr.defers = append(fr.defers, deferred{&x.Call, args, fnv, x.Pos()})
	case *ssa.Go:
		s.execGo(st, x)
	case *ssa.Send:
		ch := s.term(st, x.Chan)
		_ = ch
	case *ssa.Select:
		fr.regs[x] = s.selectOp(st, x)
	default:
		fatalf("%s: unsupported instruction %T: %s", s.name, in, in)
	}
	return false
}

func addrName(a ssa.Value) string {
	switch x := a.(type) {
	case *ssa.FieldAddr:
		return "." + x.X.Type().Underlying().(*types.Pointer).Elem().Underlying().(*types.Struct).Field(x.Field).Name()
	case *ssa.Alloc:
		return x.Comment
	case *ssa.IndexAddr:
		return "[]"
	case *ssa.Global:
		return x.Name()
	case *ssa.Parameter:
		return x.Name()
	case *ssa.FreeVar:
		return x.Name()
	}
	return "*"
}

func (s *Session) unop(st *State, x *ssa.UnOp) Value {
	switch x.Op {
	case token.MUL:
		return s.load(st, s.val(st, x.X), x.Type(), x.Pos(), addrName(x.X))
	case token.NOT:
		return Not(s.term(st, x.X))
	case token.SUB:
		v := s.term(st, x.X)
		return mk(SInt, "-", v)
	case token.ARROW:
		// channel receive: may block; value arbitrary
		if x.CommaOk {
			ok := s.fresh("recvok", SBool)
			// ok == false only on a closed channel (closedness is permanent: G_$chanClosed is never written)
			st.assume(Implies(Not(ok), Select(s.H(st, "G_$chanClosed", ArrSort(SInt, SBool)), s.term(st, x.X))))
			return Tuple{s.freshTyped(st, "recv", x.Type().(*types.Tuple).At(0).Type()), ok}
		}
		return s.freshTyped(st, "recv", x.Type())
	case token.XOR:
		return s.freshTyped(st, "xor", x.Type())
	}
	fatalf("%s: unsupported unary op %s", s.name, x.Op)
	return nil
}

func (s *Session) binop(st *State, x *ssa.BinOp) Value {
	a, b := s.term(st, x.X), s.term(st, x.Y)
	t := x.X.Type()
	isInt := false
	if bt, ok := t.Underlying().(*types.Basic); ok && bt.Info()&types.IsInteger != 0 {
		isInt = true
	}
	isStr := a.Sort == SStr
	switch x.Op {
	case token.EQL:
		return s.equal(a, b, t)
	case token.NEQ:
		return Not(s.equal(a, b, t))
	case token.LSS, token.LEQ, token.GTR, token.GEQ:
		if isStr {
			s.D.Fun("strlt", []Sort{SStr, SStr}, SBool)
			switch x.Op {
			case token.LSS:
				return mk(SBool, "strlt", a, b)
			case token.GTR:
				return mk(SBool, "strlt", b, a)
			case token.LEQ:
				return Not(mk(SBool, "strlt", b, a))
			default:
				return Not(mk(SBool, "strlt", a, b))
			}
		}
		op := map[token.Token]string{token.LSS: "<", token.LEQ: "<=", token.GTR: ">", token.GEQ: ">="}[x.Op]
		return mk(SBool, op, a, b)
	case token.ADD:
		if isStr {
			return mk(SStr, "strcat", a, b)
		}
		r := Add(a, b)
		if isInt {
			s.checkRange(st, x, r)
		}
		return r
	case token.SUB:
		r := Sub(a, b)
		if isInt {
			s.checkRange(st, x, r)
		}
		return r
	case token.MUL:
		r := mk(SInt, "*", a, b)
		if isInt {
			s.checkRange(st, x, r)
		}
		return r
	case token.LAND:
		return And(a, b)
	case token.LOR:
		return Or(a, b)
	}
	// other arithmetic (/, %, shifts, bit ops): uninterpreted result within the type's range
	if x.Op == token.QUO || x.Op == token.REM {
		if isInt {
			s.check(st, "safe.div", s.obl("safe.div", ""), Ne(b, TZero), x.Pos())
		}
	}
	return s.freshTyped(st, "arith", x.Type())
}

func (s *Session) checkRange(st *State, x *ssa.BinOp, r Term) {
	if lo, hi, ok := intRange(x.Type()); ok {
		s.check(st, "safe.overflow", s.obl("safe.overflow", x.Op.String()), And(Le(BigLit(lo), r), Le(r, BigLit(hi))), x.Pos())
	}
}

func (s *Session) equal(a, b Term, t types.Type) Term {
	if a.Sort != b.Sort {
		fatalf("%s: comparison of %s and %s", s.name, a.Sort, b.Sort)
	}
	if a.Sort == SIface {
		if b.S == NilIface.S {
			return Eq(ITag(a), TZero)
		}
		if a.S == NilIface.S {
			return Eq(ITag(b), TZero)
		}
	}
	if a.Sort == SSlice {
		// only comparison with nil is legal in Go
		if b.S == NilSlice.S {
			return Eq(SArr(a), TZero)
		}
		if a.S == NilSlice.S {
			return Eq(SArr(b), TZero)
		}
	}
	return Eq(a, b)
}

func (s *Session) convert(st *State, x *ssa.Convert) Value {
	v := s.term(st, x.X)
	from, to := x.X.Type(), x.Type()
	_, _, fi := intRange(from)
	lo, hi, ti := intRange(to)
	if fi && ti {
		// exact wrap-around semantics
		flo, fhi, _ := intRange(from)
		if cmpBig(flo, lo) >= 0 && cmpBig(fhi, hi) <= 0 {
			return v // widening
		}
		size := subBig(hi, lo) // hi-lo
		m := mk(SInt, "mod", Sub(v, BigLit(lo)), Add(BigLit(size), IntLit(1)))
		return Add(m, BigLit(lo))
	}
	fs, ts := sortOf(from), sortOf(to)
	name := "conv_" + sanitize(string(fs)) + "_to_" + typeKey(to)
	s.D.Fun(name, []Sort{fs}, ts)
	r := mk(ts, name, v)
	st.assume(s.wellTyped(st, to, r))
	if fs == SStr && ts == SSlice {
		st.assume(Eq(SLen(r), mk(SInt, "strlen", v)))
	}
	if fs == SSlice && ts == SStr {
		st.assume(Eq(mk(SInt, "strlen", r), SLen(v)))
	}
	return r
}

func cmpBig(a, b string) int {
	var x, y [2]int64
	_ = x
	_ = y
	fa, fb := parseBig(a), parseBig(b)
	return fa.Cmp(fb)
}

func (s *Session) lookup(st *State, x *ssa.Lookup) Value {
	if mt, ok := x.X.Type().Underlying().(*types.Map); ok {
		m := s.term(st, x.X)
		key := s.term(st, x.Index)
		dk, vk, ds, vs := mapKeys(mt)
		D, V := s.H(st, dk, ds), s.H(st, vk, vs)
		in := And(Ne(m, TZero), Select(Select(D, m), key))
		val := Ite(in, Select(Select(V, m), key), zeroTerm(sortOf(mt.Elem())))
		st.assume(Implies(in, s.wellTyped(st, mt.Elem(), Select(Select(V, m), key))))
		if x.CommaOk {
			return Tuple{val, in}
		}
		return val
	}
	// string index
	str := s.term(st, x.X)
	idx := s.term(st, x.Index)
	s.check(st, "safe.index", s.obl("safe.index", x.X.Name()), And(Le(TZero, idx), Lt(idx, mk(SInt, "strlen", str))), x.Pos())
	s.D.Fun("strat", []Sort{SStr, SInt}, SInt)
	v := mk(SInt, "strat", str, idx)
	st.assume(And(Le(TZero, v), Le(v, IntLit(255))))
	return v
}

func (s *Session) sliceOp(st *State, x *ssa.Slice) Value {
	var lo, hi Term
	lo = TZero
	if x.Low != nil {
		lo = s.term(st, x.Low)
	}
	switch u := x.X.Type().Underlying().(type) {
	case *types.Slice:
		sl := s.term(st, x.X)
		hi = SLen(sl)
		if x.High != nil {
			hi = s.term(st, x.High)
		}
		s.check(st, "safe.slice", s.obl("safe.slice", x.X.Name()), And(Le(TZero, lo), Le(lo, hi), Le(hi, SCap(sl))), x.Pos())
		st.assume(And(Le(TZero, lo), Le(lo, hi), Le(hi, SCap(sl))))
		// slicing a nil slice yields nil
		return Ite(Eq(SArr(sl), TZero), NilSlice, MkSlice(SArr(sl), Add(SOff(sl), lo), Sub(hi, lo), Sub(SCap(sl), lo)))
	case *types.Pointer:
		arr := u.Elem().Underlying().(*types.Array)
		ref := s.term(st, x.X)
		hi = IntLit(arr.Len())
		if x.High != nil {
			hi = s.term(st, x.High)
		}
		s.check(st, "safe.slice", s.obl("safe.slice", x.X.Name()), And(Le(TZero, lo), Le(lo, hi), Le(hi, IntLit(arr.Len()))), x.Pos())
		return MkSlice(ref, lo, Sub(hi, lo), Sub(IntLit(arr.Len()), lo))
	case *types.Basic:
		str := s.term(st, x.X)
		hi = mk(SInt, "strlen", str)
		if x.High != nil {
			hi = s.term(st, x.High)
		}
		s.check(st, "safe.slice", s.obl("safe.slice", x.X.Name()), And(Le(TZero, lo), Le(lo, hi), Le(hi, mk(SInt, "strlen", str))), x.Pos())
		s.D.Fun("substr", []Sort{SStr, SInt, SInt}, SStr)
		r := mk(SStr, "substr", str, lo, hi)
		st.assume(Eq(mk(SInt, "strlen", r), Sub(hi, lo)))
		return r
	}
	fatalf("%s: slice of %s", s.name, x.X.Type())
	return nil
}

func (s *Session) typeAssert(st *State, x *ssa.TypeAssert) bool {
	v := s.term(st, x.X)
	fr := st.fr
	var ok Term
	var res Term
	if _, isIface := x.AssertedType.Underlying().(*types.Interface); isIface {
		name := "implements_" + typeKey(x.AssertedType)
		s.D.Fun(name, []Sort{SInt}, SBool)
		ok = And(Ne(ITag(v), TZero), mk(SBool, name, ITag(v)))
		res = v
	} else {
		tag := s.P.tagOf(x.AssertedType)
		ok = Eq(ITag(v), IntLit(int64(tag)))
		res = s.unbox(IVal(v), sortOf(x.AssertedType))
	}
	if x.CommaOk {
		val := Ite(ok, res, zeroTerm(res.Sort))
		st.assume(Implies(ok, s.wellTyped(st, x.AssertedType, res)))
		fr.regs[x] = Tuple{val, ok}
		return false
	}
	s.check(st, "safe.assert", s.obl("safe.assert", types.TypeString(x.AssertedType, func(p *types.Package) string { return p.Name() })), ok, x.Pos())
	st.assume(ok)
	st.assume(s.wellTyped(st, x.AssertedType, res))
	fr.regs[x] = res
	return false
}

func (s *Session) next(st *State, it *Iter, x *ssa.Next) Value {
	mt := it.MT
	dk, vk, ds, vs := mapKeys(mt)
	D, V := s.H(st, dk, ds), s.H(st, vk, vs)
	dom := Select(D, it.M)
	seen := st.seen[it.id]
	ok := s.fresh("next_ok", SBool)
	k := s.freshTyped(st, "next_k", mt.Key())
	v := Select(Select(V, it.M), k)
	ks := sortOf(mt.Key())
	// ok => k in dom, not yet seen; !ok => everything in dom was seen
	st.assume(Implies(ok, And(Ne(it.M, TZero), Select(dom, k), Not(Select(seen, k)))))
	qv := Term{"k!q", ks}
	allSeen := Term{fmt.Sprintf("(forall ((k!q %s)) (=> %s %s))", ks, Select(dom, qv).S, Select(seen, qv).S), SBool}
	st.assume(Implies(Not(ok), Or(Eq(it.M, TZero), allSeen)))
	st.assume(Implies(ok, s.wellTyped(st, mt.Elem(), v)))
	ns := s.fresh("seen", seen.Sort)
	st.assume(Eq(ns, Ite(ok, Store(seen, k, TTrue), seen)))
	st.seen[it.id] = ns
	return Tuple{ok, k, v}
}

func (s *Session) selectOp(st *State, x *ssa.Select) Value {
	// result: (index int, recvOk bool, r_0 T_0, ...) ; arbitrary ready case
	tup := x.Type().(*types.Tuple)
	idx := s.fresh("select_idx", SInt)
	lo := TZero
	if !x.Blocking {
		lo = IntLit(-1)
	}
	st.assume(And(Le(lo, idx), Lt(idx, IntLit(int64(len(x.States))))))
	rok := s.fresh("select_ok", SBool)
	for i, cs := range x.States {
		if cs.Dir == types.RecvOnly {
			// the chosen receive yields ok == false only on a closed channel
			st.assume(Implies(And(Eq(idx, IntLit(int64(i))), Not(rok)), Select(s.H(st, "G_$chanClosed", ArrSort(SInt, SBool)), s.term(st, cs.Chan))))
		}
	}
	out := Tuple{idx, rok}
	for i := 2; i < tup.Len(); i++ {
		out = append(out, s.freshTyped(st, "select_recv", tup.At(i).Type()))
	}
	return out
}

// libNonNilVars: library package variables assumed non-nil (trusted base, listed in DESIGN.md §8).
var libNonNilVars = map[string]bool{
	"io.Discard": true, "io/ioutil.Discard": true, "io.EOF": true,
	"os.Stdin": true, "os.Stdout": true, "os.Stderr": true,
}
