package main

// Contract language: parser for contract files (//@ lines in /repo/<pkg>/verif_contracts.go
// and plain lines in /verif/libspec/*.spec) and for specification expressions.

import (
	"fmt"
	"os"
	"strconv"
	"strings"
	"unicode"
)

// ---------------------------------------------------------------- AST

type Expr interface{}

type EIdent struct{ Name string }
type EInt struct{ V string }
type EStr struct{ V string }
type EBool struct{ V bool }
type ENil struct{}
type EUnary struct {
	Op string
	X  Expr
}
type EBinary struct {
	Op   string
	L, R Expr
}
type ECond struct{ C, A, B Expr }
type EField struct {
	X    Expr
	Name string
}
type EIndex struct{ X, I Expr }
type ECall struct {
	Fun  string
	Args []Expr
}
type QVar struct{ Name, Type string }
type EQuant struct {
	Forall bool
	Vars   []QVar
	Body   Expr
}

type Clause struct {
	Label string
	E     Expr
	Src   string
	File  string
	Line  int
}

type Assign struct {
	LHS Expr
	RHS Expr
	Src string
}

type LoopSpec struct {
	N    int
	Text string
	Invs []Clause
	Line int
	used bool
}

type CallsiteSpec struct {
	Callee   string // suffix-matched against the callee's qualified name
	Requires []Clause
	Assume   []Clause
	AssumePre []Clause // assumed before the call's preconditions are checked (listed in evidence)
	Ghost    []Assign // applied after the call
	GhostPre []Assign // applied before the call
	Line     int
	used     bool
}

type Contract struct {
	Pkg       string
	Func      string
	Requires  []Clause
	Ensures   []Clause
	Modifies  []Expr
	ModAll    bool
	HasMod    bool
	Loops     []*LoopSpec
	Callsites []*CallsiteSpec
	Flags     map[string]bool
	Effects   []string
	Waive     map[string]string // obligation kind -> reason (listed in evidence)
	GhostLocals []GhostDecl      // per-activation ghost variables
	File      string
	Line      int
}

type Pred struct {
	Name   string
	Params []QVar
	Body   Expr
	Src    string
}

type GhostDecl struct {
	Name string
	Type string // go-ish type: map[*Stage]bool, int, bool
}

type FunDecl struct {
	Name   string
	Params []QVar
	Result string
}

type SharedDecl struct {
	AnyWriter  bool   // no ownership needed to write (flags, error slots)
	Field      string // Type.Field
	Transition Expr   // over old, new (and the object x)
	Closure    Expr
}

type PkgSpec struct {
	Path      string
	Preds     map[string]*Pred
	Ghosts    []GhostDecl
	Funs      map[string]*FunDecl
	Axioms    []Clause
	GlobalInvs []Clause
	Lemmas    []Clause
	Consts    map[string]string
	Shared    []*SharedDecl
	Contracts map[string]*Contract
}

func newPkgSpec(path string) *PkgSpec {
	return &PkgSpec{Path: path, Preds: map[string]*Pred{}, Funs: map[string]*FunDecl{}, Consts: map[string]string{}, Contracts: map[string]*Contract{}}
}

// ---------------------------------------------------------------- lexer

type tok struct {
	k string // id int str op eof
	v string
}

func lex(s string) ([]tok, error) {
	var ts []tok
	i := 0
	for i < len(s) {
		c := s[i]
		switch {
		case c == ' ' || c == '\t':
			i++
		case unicode.IsLetter(rune(c)) || c == '_' || c == '$':
			j := i + 1
			for j < len(s) && (unicode.IsLetter(rune(s[j])) || unicode.IsDigit(rune(s[j])) || s[j] == '_' || s[j] == '$' || s[j] == '#') {
				j++
			}
			ts = append(ts, tok{"id", s[i:j]})
			i = j
		case unicode.IsDigit(rune(c)):
			j := i + 1
			for j < len(s) && unicode.IsDigit(rune(s[j])) {
				j++
			}
			ts = append(ts, tok{"int", s[i:j]})
			i = j
		case c == '"':
			j := i + 1
			for j < len(s) && s[j] != '"' {
				if s[j] == '\\' {
					j++
				}
				j++
			}
			if j >= len(s) {
				return nil, fmt.Errorf("unterminated string")
			}
			v, err := strconv.Unquote(s[i : j+1])
			if err != nil {
				return nil, err
			}
			ts = append(ts, tok{"str", v})
			i = j + 1
		default:
			ops := []string{"<==>", "==>", "::", ":=", "==", "!=", "<=", ">=", "&&", "||", "(", ")", "[", "]", "<", ">", "+", "-", "*", "!", ".", ",", "?", ":", "{", "}", "="}
			matched := false
			for _, op := range ops {
				if strings.HasPrefix(s[i:], op) {
					ts = append(ts, tok{"op", op})
					i += len(op)
					matched = true
					break
				}
			}
			if !matched {
				return nil, fmt.Errorf("unexpected character %q at %d in %q", c, i, s)
			}
		}
	}
	ts = append(ts, tok{"eof", ""})
	return ts, nil
}

type parser struct {
	ts  []tok
	pos int
	src string
}

func (p *parser) peek() tok { return p.ts[p.pos] }
func (p *parser) next() tok { t := p.ts[p.pos]; p.pos++; return t }
func (p *parser) isOp(v string) bool {
	t := p.peek()
	return t.k == "op" && t.v == v
}
func (p *parser) isID(v string) bool {
	t := p.peek()
	return t.k == "id" && t.v == v
}
func (p *parser) expectOp(v string) {
	if !p.isOp(v) {
		panic(fmt.Sprintf("expected %q, got %q in %q", v, p.peek().v, p.src))
	}
	p.pos++
}

func parseExpr(src string) (e Expr, err error) {
	ts, err := lex(src)
	if err != nil {
		return nil, err
	}
	p := &parser{ts: ts, src: src}
	defer func() {
		if r := recover(); r != nil {
			err = fmt.Errorf("%v", r)
		}
	}()
	e = p.expr()
	if p.peek().k != "eof" {
		return nil, fmt.Errorf("trailing tokens at %q in %q", p.peek().v, src)
	}
	return e, nil
}

func (p *parser) expr() Expr { return p.iff() }

func (p *parser) iff() Expr {
	l := p.implies()
	for p.isOp("<==>") {
		p.next()
		r := p.implies()
		l = &EBinary{"<==>", l, r}
	}
	return l
}
func (p *parser) implies() Expr {
	l := p.cond()
	if p.isOp("==>") {
		p.next()
		r := p.implies()
		return &EBinary{"==>", l, r}
	}
	return l
}
func (p *parser) cond() Expr {
	c := p.or()
	if p.isOp("?") {
		p.next()
		a := p.cond()
		p.expectOp(":")
		b := p.cond()
		return &ECond{c, a, b}
	}
	return c
}
func (p *parser) or() Expr {
	l := p.and()
	for p.isOp("||") {
		p.next()
		l = &EBinary{"||", l, p.and()}
	}
	return l
}
func (p *parser) and() Expr {
	l := p.not()
	for p.isOp("&&") {
		p.next()
		l = &EBinary{"&&", l, p.not()}
	}
	return l
}
func (p *parser) not() Expr {
	if p.isOp("!") {
		p.next()
		return &EUnary{"!", p.not()}
	}
	return p.cmp()
}
func (p *parser) cmp() Expr {
	l := p.add()
	for {
		t := p.peek()
		if t.k == "op" && (t.v == "==" || t.v == "!=" || t.v == "<" || t.v == "<=" || t.v == ">" || t.v == ">=") {
			p.next()
			l = &EBinary{t.v, l, p.add()}
			continue
		}
		if t.k == "id" && t.v == "in" {
			p.next()
			l = &EBinary{"in", l, p.add()}
			continue
		}
		return l
	}
}
func (p *parser) add() Expr {
	l := p.unary()
	for p.isOp("+") || p.isOp("-") {
		op := p.next().v
		l = &EBinary{op, l, p.unary()}
	}
	return l
}
func (p *parser) unary() Expr {
	if p.isOp("-") {
		p.next()
		return &EUnary{"-", p.unary()}
	}
	return p.postfix()
}
func (p *parser) postfix() Expr {
	e := p.primary()
	for {
		switch {
		case p.isOp("."):
			p.next()
			t := p.next()
			if t.k == "op" && t.v == "*" {
				e = &EField{e, "*"}
				continue
			}
			if t.k != "id" {
				panic("field name expected in " + p.src)
			}
			e = &EField{e, t.v}
		case p.isOp("["):
			p.next()
			i := p.expr()
			p.expectOp("]")
			e = &EIndex{e, i}
		default:
			return e
		}
	}
}

func (p *parser) typeStr(stop func() bool) string {
	// collect tokens of a type until a stop token at depth 0
	var b strings.Builder
	depth := 0
	for {
		t := p.peek()
		if t.k == "eof" {
			break
		}
		if depth == 0 && stop() {
			break
		}
		if t.k == "op" && (t.v == "[" || t.v == "(") {
			depth++
		}
		if t.k == "op" && (t.v == "]" || t.v == ")") {
			if depth == 0 {
				break
			}
			depth--
		}
		b.WriteString(t.v)
		p.next()
	}
	return b.String()
}

func (p *parser) primary() Expr {
	t := p.next()
	switch t.k {
	case "int":
		return &EInt{t.v}
	case "str":
		return &EStr{t.v}
	case "op":
		if t.v == "(" {
			e := p.expr()
			p.expectOp(")")
			return e
		}
		panic(fmt.Sprintf("unexpected %q in %q", t.v, p.src))
	case "id":
		switch t.v {
		case "true":
			return &EBool{true}
		case "false":
			return &EBool{false}
		case "nil":
			return &ENil{}
		case "forall", "exists":
			q := &EQuant{Forall: t.v == "forall"}
			for {
				n := p.next()
				if n.k != "id" {
					panic("quantified variable expected in " + p.src)
				}
				ty := p.typeStr(func() bool { return p.isOp(",") || p.isOp("::") })
				q.Vars = append(q.Vars, QVar{n.v, ty})
				if p.isOp(",") {
					p.next()
					continue
				}
				break
			}
			p.expectOp("::")
			q.Body = p.expr()
			return q
		}
		if p.isOp("(") {
			p.next()
			c := &ECall{Fun: t.v}
			if !p.isOp(")") {
				for {
					c.Args = append(c.Args, p.expr())
					if p.isOp(",") {
						p.next()
						continue
					}
					break
				}
			}
			p.expectOp(")")
			return c
		}
		return &EIdent{t.v}
	}
	panic(fmt.Sprintf("unexpected token %q in %q", t.v, p.src))
}

// ---------------------------------------------------------------- contract files

func mustExpr(src, file string, line int) Expr {
	e, err := parseExpr(src)
	if err != nil {
		fatalf("%s:%d: %v", file, line, err)
	}
	return e
}

func parseClause(rest, file string, line int) Clause {
	rest = strings.TrimSpace(rest)
	c := Clause{File: file, Line: line}
	if strings.HasPrefix(rest, "#") {
		i := strings.IndexAny(rest, " \t")
		if i < 0 {
			fatalf("%s:%d: label without expression", file, line)
		}
		c.Label = rest[1:i]
		rest = strings.TrimSpace(rest[i:])
	}
	c.Src = rest
	c.E = mustExpr(rest, file, line)
	return c
}

func parseParams(s, file string, line int) []QVar {
	// "a T, b U"
	s = strings.TrimSpace(s)
	if s == "" {
		return nil
	}
	var out []QVar
	depth := 0
	start := 0
	parts := []string{}
	for i, c := range s {
		switch c {
		case '[', '(':
			depth++
		case ']', ')':
			depth--
		case ',':
			if depth == 0 {
				parts = append(parts, s[start:i])
				start = i + 1
			}
		}
	}
	parts = append(parts, s[start:])
	for _, p := range parts {
		f := strings.Fields(strings.TrimSpace(p))
		if len(f) < 2 {
			fatalf("%s:%d: bad parameter %q", file, line, p)
		}
		out = append(out, QVar{f[0], strings.Join(f[1:], "")})
	}
	return out
}

func parseAssign(rest, file string, line int) Assign {
	// lhs = rhs   (top-level single '=')
	depth := 0
	for i := 0; i < len(rest); i++ {
		switch rest[i] {
		case '(', '[':
			depth++
		case ')', ']':
			depth--
		case '=':
			if depth == 0 && i+1 < len(rest) && rest[i+1] != '=' && (i == 0 || (rest[i-1] != '=' && rest[i-1] != '!' && rest[i-1] != '<' && rest[i-1] != '>')) {
				return Assign{LHS: mustExpr(rest[:i], file, line), RHS: mustExpr(rest[i+1:], file, line), Src: strings.TrimSpace(rest)}
			}
		}
	}
	fatalf("%s:%d: ghost assignment expected: %q", file, line, rest)
	return Assign{}
}

// parseSpecFile parses one contract file. If repoStyle, only lines starting
// with //@ are read, and defaultPkg is the package path.
func parseSpecFile(file string, repoStyle bool, defaultPkg string, specs map[string]*PkgSpec) {
	data, err := os.ReadFile(file)
	if err != nil {
		fatalf("%v", err)
	}
	cur := defaultPkg
	get := func() *PkgSpec {
		if cur == "" {
			fatalf("%s: no package declared", file)
		}
		if specs[cur] == nil {
			specs[cur] = newPkgSpec(cur)
		}
		return specs[cur]
	}
	var fn *Contract
	var loop *LoopSpec
	var cs *CallsiteSpec
	lines := strings.Split(string(data), "\n")
	// join continuation lines (ending with backslash)
	for ln := 0; ln < len(lines); ln++ {
		raw := lines[ln]
		lineNo := ln + 1
		s := strings.TrimSpace(raw)
		if repoStyle {
			if !strings.HasPrefix(s, "//@") {
				continue
			}
			s = strings.TrimSpace(s[3:])
		}
		for strings.HasSuffix(s, "\\") && ln+1 < len(lines) {
			ln++
			nx := strings.TrimSpace(lines[ln])
			if repoStyle {
				nx = strings.TrimSpace(strings.TrimPrefix(nx, "//@"))
			}
			s = strings.TrimSuffix(s, "\\") + " " + nx
		}
		if i := strings.Index(s, " //"); i >= 0 && !strings.Contains(s[:i], "\"") {
			s = strings.TrimSpace(s[:i])
		}
		if s == "" || strings.HasPrefix(s, "#!") || strings.HasPrefix(s, "//") {
			continue
		}
		kw := s
		rest := ""
		if i := strings.IndexAny(s, " \t"); i >= 0 {
			kw, rest = s[:i], strings.TrimSpace(s[i:])
		}
		switch kw {
		case "package":
			cur = rest
			fn, loop, cs = nil, nil, nil
		case "pred":
			// pred name(params) := body
			i := strings.Index(rest, "(")
			j := matchParen(rest, i)
			k := strings.Index(rest[j:], ":=")
			if i < 0 || j < 0 || k < 0 {
				fatalf("%s:%d: bad pred", file, lineNo)
			}
			pd := &Pred{Name: strings.TrimSpace(rest[:i]), Params: parseParams(rest[i+1:j], file, lineNo), Src: strings.TrimSpace(rest[j+k+2:])}
			pd.Body = mustExpr(pd.Src, file, lineNo)
			get().Preds[pd.Name] = pd
			fn = nil
		case "fun":
			// fun name(params) result
			i := strings.Index(rest, "(")
			j := matchParen(rest, i)
			if i < 0 || j < 0 {
				fatalf("%s:%d: bad fun", file, lineNo)
			}
			fd := &FunDecl{Name: strings.TrimSpace(rest[:i]), Params: parseParams(rest[i+1:j], file, lineNo), Result: strings.TrimSpace(rest[j+1:])}
			get().Funs[fd.Name] = fd
			fn = nil
		case "ghost":
			if cs != nil && strings.Contains(strings.ReplaceAll(strings.ReplaceAll(strings.ReplaceAll(rest, "==", ""), "!=", ""), "<=", ""), "=") {
				a := parseAssign(rest, file, lineNo)
				cs.Ghost = append(cs.Ghost, a)
				continue
			}
			fn, loop, cs = nil, nil, nil
			f := strings.Fields(rest)
			if len(f) < 2 {
				fatalf("%s:%d: bad ghost", file, lineNo)
			}
			get().Ghosts = append(get().Ghosts, GhostDecl{f[0], strings.Join(f[1:], "")})
		case "ghostlocal":
			if fn == nil {
				fatalf("%s:%d: ghostlocal outside func", file, lineNo)
			}
			f := strings.Fields(rest)
			if len(f) < 2 {
				fatalf("%s:%d: bad ghostlocal", file, lineNo)
			}
			fn.GhostLocals = append(fn.GhostLocals, GhostDecl{f[0], strings.Join(f[1:], "")})
		case "ghostpre":
			if cs == nil {
				fatalf("%s:%d: ghostpre outside callsite", file, lineNo)
			}
			cs.GhostPre = append(cs.GhostPre, parseAssign(rest, file, lineNo))
		case "const":
			f := strings.SplitN(rest, "=", 2)
			if len(f) != 2 {
				fatalf("%s:%d: bad const", file, lineNo)
			}
			get().Consts[strings.TrimSpace(f[0])] = strings.TrimSpace(f[1])
		case "axiom":
			get().Axioms = append(get().Axioms, parseClause(rest, file, lineNo))
			fn = nil
		case "globalinv":
			get().GlobalInvs = append(get().GlobalInvs, parseClause(rest, file, lineNo))
			fn = nil
		case "lemma":
			get().Lemmas = append(get().Lemmas, parseClause(rest, file, lineNo))
			fn = nil
		case "shared":
			// shared Type.Field transition <expr> [closure <expr>]
			f := strings.SplitN(rest, " transition ", 2)
			if len(f) != 2 {
				fatalf("%s:%d: bad shared", file, lineNo)
			}
			sd := &SharedDecl{Field: strings.TrimSpace(f[0])}
			if strings.HasSuffix(sd.Field, " anywriter") {
				sd.AnyWriter = true
				sd.Field = strings.TrimSpace(strings.TrimSuffix(sd.Field, " anywriter"))
			}
			g := strings.SplitN(f[1], " closure ", 2)
			sd.Transition = mustExpr(g[0], file, lineNo)
			if len(g) == 2 {
				sd.Closure = mustExpr(g[1], file, lineNo)
			} else {
				sd.Closure = sd.Transition
			}
			get().Shared = append(get().Shared, sd)
		case "func":
			fn = &Contract{Pkg: cur, Func: rest, Flags: map[string]bool{}, File: file, Line: lineNo}
			if old := get().Contracts[rest]; old != nil {
				fatalf("%s:%d: duplicate contract for %s", file, lineNo, rest)
			}
			get().Contracts[rest] = fn
			loop, cs = nil, nil
		case "requires":
			if fn == nil {
				fatalf("%s:%d: requires outside func", file, lineNo)
			}
			if cs != nil {
				cs.Requires = append(cs.Requires, parseClause(rest, file, lineNo))
			} else {
				fn.Requires = append(fn.Requires, parseClause(rest, file, lineNo))
			}
		case "assumepre":
			if cs == nil {
				fatalf("%s:%d: assumepre outside callsite", file, lineNo)
			}
			cs.AssumePre = append(cs.AssumePre, parseClause(rest, file, lineNo))
		case "assume":
			if cs == nil {
				fatalf("%s:%d: assume outside callsite", file, lineNo)
			}
			cs.Assume = append(cs.Assume, parseClause(rest, file, lineNo))
		case "ensures":
			if fn == nil {
				fatalf("%s:%d: ensures outside func", file, lineNo)
			}
			fn.Ensures = append(fn.Ensures, parseClause(rest, file, lineNo))
			loop, cs = nil, nil
		case "modifies":
			if fn == nil {
				fatalf("%s:%d: modifies outside func", file, lineNo)
			}
			fn.HasMod = true
			loop, cs = nil, nil
			if rest == "*" {
				fn.ModAll = true
			} else if rest != "" && rest != "nothing" {
				for _, part := range splitTop(rest) {
					fn.Modifies = append(fn.Modifies, mustExpr(part, file, lineNo))
				}
			}
		case "loop":
			// loop N "text"
			if fn == nil {
				fatalf("%s:%d: loop outside func", file, lineNo)
			}
			f := strings.SplitN(rest, " ", 2)
			n, err := strconv.Atoi(f[0])
			if err != nil {
				fatalf("%s:%d: bad loop ordinal", file, lineNo)
			}
			loop = &LoopSpec{N: n, Line: lineNo}
			if len(f) == 2 {
				t, err := strconv.Unquote(strings.TrimSpace(f[1]))
				if err != nil {
					fatalf("%s:%d: bad loop text: %v", file, lineNo, err)
				}
				loop.Text = t
			}
			fn.Loops = append(fn.Loops, loop)
			cs = nil
		case "invariant":
			if loop == nil {
				fatalf("%s:%d: invariant outside loop", file, lineNo)
			}
			loop.Invs = append(loop.Invs, parseClause(rest, file, lineNo))
		case "callsite":
			if fn == nil {
				fatalf("%s:%d: callsite outside func", file, lineNo)
			}
			cs = &CallsiteSpec{Callee: rest, Line: lineNo}
			fn.Callsites = append(fn.Callsites, cs)
			loop = nil
		case "owns":
			if fn == nil {
				fatalf("%s:%d: owns outside func", file, lineNo)
			}
			fn.Effects = append(fn.Effects, "owns "+rest)
		case "waive":
			if fn == nil {
				fatalf("%s:%d: waive outside func", file, lineNo)
			}
			f := strings.SplitN(rest, " ", 2)
			if len(f) != 2 {
				fatalf("%s:%d: waive <kind> <reason>", file, lineNo)
			}
			if fn.Waive == nil {
				fn.Waive = map[string]string{}
			}
			fn.Waive[f[0]] = strings.Trim(f[1], "\"")
		case "effect":
			if fn == nil {
				fatalf("%s:%d: effect outside func", file, lineNo)
			}
			fn.Effects = append(fn.Effects, rest)
		case "pure", "noreturn", "maypanic", "trusted", "inline", "fresh", "nomod", "havocall", "allocates":
			if fn == nil {
				fatalf("%s:%d: %s outside func", file, lineNo, kw)
			}
			fn.Flags[kw] = true
		default:
			fatalf("%s:%d: unknown keyword %q", file, lineNo, kw)
		}
	}
}

func matchParen(s string, i int) int {
	if i < 0 {
		return -1
	}
	depth := 0
	for j := i; j < len(s); j++ {
		switch s[j] {
		case '(':
			depth++
		case ')':
			depth--
			if depth == 0 {
				return j
			}
		}
	}
	return -1
}

func splitTop(s string) []string {
	var parts []string
	depth := 0
	start := 0
	for i, c := range s {
		switch c {
		case '(', '[':
			depth++
		case ')', ']':
			depth--
		case ',':
			if depth == 0 {
				parts = append(parts, strings.TrimSpace(s[start:i]))
				start = i + 1
			}
		}
	}
	parts = append(parts, strings.TrimSpace(s[start:]))
	return parts
}

func fatalf(format string, args ...interface{}) {
	panic(toolError{fmt.Sprintf(format, args...)})
}

type toolError struct{ msg string }

func (e toolError) Error() string { return e.msg }
