package main

// Property-level checks: which functions/obligations decide a property, verdict
// policy (VIOLATION / KNOWN-FINDING), evidence files.

import (
	"hash/fnv"
	"os/exec"
	"context"
	"regexp"
	"encoding/json"
	"flag"
	"fmt"
	"os"
	"path/filepath"
	"sort"
	"strconv"
	"strings"
	"time"
)

type PropConfig struct {
	Title       string   `json:"title"`
	Functions   []string `json:"functions"`          // verified with their contracts
	Sweep       []string `json:"sweep"`              // verified in zero-annotation mode (safety obligations only)
	Lemmas      []string `json:"lemmas"`             // SMT lemma files (must be unsat)
	LeanLemmas  []string `json:"lean_lemmas"`        // Lean 4 files (checked by `lean`, Mathlib) — thorough tier only
	LemmaPkgs   []string `json:"lemma_pkgs"`         // packages whose `lemma` clauses belong to this property
	Assumptions []string `json:"assumptions"`        // unchecked assumptions, reported verbatim
	Kinds       []string `json:"kinds"`              // restrict counted obligations to these kinds (optional)
	Only        []string `json:"only"`               // substrings: restrict counted obligations (optional)
	Include     []string `json:"include"`            // substrings of obligation names counted even if an exclude entry matches
	Exclude     []string `json:"exclude"`            // substrings of obligation names not counted for this property
	Bounded     []string `json:"bounded_standins"`   // descriptions of bounded stand-ins (never counted as discharged)
}

type KnownEntry struct {
	Kind       string `json:"kind"`
	Property   string `json:"property"`
	Obligation string `json:"obligation"`
	Commit     string `json:"commit"`
	What       string `json:"what"`
	Canary     string `json:"canary"`
	Line       string `json:"line"`
}

type oblResult struct {
	Name    string
	Kind    string
	Fn      string
	VCs     []*VC
	OK      bool
	Secs    float64
	Solvers map[string]int
	Reason  string
}

func loadProps() map[string]*PropConfig {
	data, err := os.ReadFile(filepath.Join(verifRoot, "props.json"))
	if err != nil {
		fatalf("props.json: %v", err)
	}
	var m map[string]*PropConfig
	if err := json.Unmarshal(data, &m); err != nil {
		fatalf("props.json: %v", err)
	}
	return m
}

func loadKnown() []KnownEntry {
	data, err := os.ReadFile(filepath.Join(verifRoot, "known_findings.json"))
	if err != nil {
		return nil
	}
	var f struct {
		Entries []KnownEntry `json:"entries"`
	}
	if err := json.Unmarshal(data, &f); err != nil {
		fatalf("known_findings.json: %v", err)
	}
	return f.Entries
}

func cmdCheck(args []string) int {
	fs := flag.NewFlagSet("check", flag.ExitOnError)
	tier := fs.String("tier", "", "quick|thorough")
	fs.Parse(args)
	if fs.NArg() != 1 {
		fmt.Fprintln(os.Stderr, "usage: govc check [--tier quick|thorough] <property>")
		return 2
	}
	id := fs.Arg(0)
	if *tier == "" {
		*tier = os.Getenv("VERIF_TIER")
	}
	if *tier != "thorough" {
		*tier = "quick"
	}
	seed := 0
	if v := os.Getenv("VERIF_SEED"); v != "" {
		seed, _ = strconv.Atoi(v)
	}
	props := loadProps()
	pc := props[id]
	if pc == nil {
		fmt.Fprintf(os.Stderr, "govc: property %s is not configured in props.json\n", id)
		return 2
	}
	t0 := time.Now()
	P := loadProg(repoRoot, filepath.Join(verifRoot, "libspec"))
	loadSecs := time.Since(t0).Seconds()

	var all []*VC
	var fnres []*FnResult
	var toolErrs []string
	run := func(name string, sweep bool) {
		// "fn|a,b": count only obligations of fn whose name contains a or b
		var onlyThese []string
		if i := strings.Index(name, "|"); i >= 0 {
			onlyThese = strings.Split(name[i+1:], ",")
			name = name[:i]
		}
		r := P.verifyFn(name, sweep)
		fnres = append(fnres, r)
		if r.Err != "" {
			toolErrs = append(toolErrs, name+": "+r.Err)
			return
		}
		for _, vc := range r.VCs {
			if !countsFor(pc, vc, sweep) {
				continue
			}
			if len(onlyThese) > 0 && vc.Kind != "vacuity" && vc.Kind != "canary" {
				hit := false
				for _, o := range onlyThese {
					if strings.Contains(vc.Obl, o) {
						hit = true
					}
				}
				if !hit {
					continue
				}
			}
			all = append(all, vc)
		}
	}
	for _, f := range pc.Functions {
		run(f, false)
	}
	for _, f := range pc.Sweep {
		run(f, true)
	}
	for _, lp := range pc.LemmaPkgs {
		r := P.verifyLemmas(lp)
		fnres = append(fnres, r)
		if r.Err != "" {
			toolErrs = append(toolErrs, r.Name+": "+r.Err)
		}
		all = append(all, r.VCs...)
	}
	genSecs := time.Since(t0).Seconds() - loadSecs
	for _, k := range loadKnown() {
		if k.Kind == "known" && k.Property == id {
			for _, vc := range all {
				if vc.Obl == k.Obligation {
					vc.Known = true
				}
			}
		}
	}
	secs, mode := 10, "quick"
	if *tier == "thorough" {
		secs, mode = 60, "all"
	}
	t1 := time.Now()
	solveAll(all, secs, mode, 16)
	reachSecs := 1
	if *tier == "thorough" {
		reachSecs = 3
	}
	reach := reachAll(all, reachSecs)
	solveSecs := time.Since(t1).Seconds()

	// lemmas: stand-alone SMT files that must be unsat
	for _, lf := range pc.Lemmas {
		data, err := os.ReadFile(filepath.Join(verifRoot, lf))
		vc := &VC{Obl: "lemma:" + filepath.Base(lf), Kind: "lemma", Fn: "lemma"}
		if err != nil {
			vc.Status, vc.Output = "error", err.Error()
		} else {
			vc.SMT = strings.Replace(string(data), "(check-sat)", "", -1)
			solveAll([]*VC{vc}, secs, mode, 1)
		}
		all = append(all, vc)
	}

	// Lean lemmas: paper steps that were mechanised (e.g. uniqueness of the final status vector, C02).
	// Checking one costs ~20-60 s (Mathlib import), so it is part of the thorough tier only; the quick
	// tier records that the lemma exists and scans it for sorry / admit / axiom.
	for _, lf := range pc.LeanLemmas {
		path := filepath.Join(verifRoot, lf)
		vc := &VC{Obl: "lemma:" + filepath.Base(lf), Kind: "lemma", Fn: "lemma", Goal: "lean accepts the file; no sorry / admit / axiom in it"}
		data, err := os.ReadFile(path)
		switch {
		case err != nil:
			vc.Status, vc.Output = "error", err.Error()
		case regexp.MustCompile(`\b(sorry|admit|axiom)\b`).Match(data):
			vc.Status, vc.Output = "error", "the Lean file contains sorry / admit / axiom"
		case *tier != "thorough":
			vc.Status, vc.Solver = "unsat", "lean (not re-checked in the quick tier; scan only)"
		default:
			t0 := time.Now()
			ctx, cancel := context.WithTimeout(context.Background(), 15*time.Minute)
			out, err := exec.CommandContext(ctx, "lean", path).CombinedOutput()
			cancel()
			vc.Secs = time.Since(t0).Seconds()
			if err != nil || strings.Contains(string(out), "error") {
				vc.Status, vc.Solver, vc.Output = "error", "lean-4.33", truncate(string(out), 600)
			} else {
				vc.Status, vc.Solver = "unsat", "lean-4.33"
			}
		}
		all = append(all, vc)
	}

	// aggregate VCs into obligations
	byName := map[string]*oblResult{}
	var order []string
	vacuity := 0
	for _, vc := range all {
		if vc.Kind == "vacuity" || vc.Kind == "canary" {
			vacuity++
		}
		o := byName[vc.Obl]
		if o == nil {
			o = &oblResult{Name: vc.Obl, Kind: vc.Kind, Fn: vc.Fn, OK: true, Solvers: map[string]int{}}
			byName[vc.Obl] = o
			order = append(order, vc.Obl)
		}
		o.VCs = append(o.VCs, vc)
		o.Secs += vc.Secs
		o.Solvers[vc.Solver]++
		if !vcGood(vc) {
			o.OK = false
			o.Reason = fmt.Sprintf("path %q: solver answer %s (%s)", vc.Path, vc.Status, vc.Solver)
			if vc.Kind == "effect" {
				o.Reason = "static effect clause: " + vc.Goal
			}
		}
	}
	// obligations none of whose paths is reachable are not discharged, whatever the solver said
	for _, rv := range reach {
		if o := byName[rv.Obl]; o != nil && o.OK {
			o.OK = false
			o.Reason = rv.Output
		}
	}
	vacuity += reachQueries
	// canaries: one live return path is enough
	for _, o := range byName {
		if o.Kind != "canary" {
			continue
		}
		o.Kind = "vacuity"
		o.OK = false
		for _, vc := range o.VCs {
			if vcGood(vc) {
				o.OK = true
			}
		}
		if !o.OK {
			o.Reason = "every return path of the function is provably unreachable under its assumptions"
		}
	}
	for _, te := range toolErrs {
		name := strings.SplitN(te, ":", 2)[0] + ":binding"
		byName[name] = &oblResult{Name: name, Kind: "binding", OK: false, Reason: te, Solvers: map[string]int{}}
		order = append(order, name)
	}
	sort.Strings(order)

	known := loadKnown()
	knownFor := map[string]KnownEntry{}
	for _, k := range known {
		if k.Kind == "known" && k.Property == id {
			knownFor[k.Obligation] = k
		}
	}
	// known findings whose obligation is declared but not produced by any contract are reported as-is
	violations := 0
	discharged, total := 0, 0
	backends := map[string]int{}
	var slowest *oblResult
	var samples []map[string]interface{}
	var knownHit []string
	replayDir := filepath.Join(verifRoot, "replays", "run", id)
	if v := os.Getenv("GOVC_EVIDENCE"); v != "" {
		replayDir = filepath.Join(v, "replays", id)
	}
	os.RemoveAll(replayDir)
	for _, name := range order {
		o := byName[name]
		if o.Kind == "vacuity" {
			if !o.OK {
				fmt.Printf("VACUITY: %s: the assumptions of this function are contradictory (%s)\n", name, o.Reason)
				violations++
				path := writeReplay(replayDir, id, o, nil)
				fmt.Printf("VIOLATION property=%s replay=%s no-failing-input-found\n", id, path)
			}
			continue
		}
		total++
		for s, n := range o.Solvers {
			backends[s] += n
		}
		if slowest == nil || o.Secs > slowest.Secs {
			slowest = o
		}
		if o.OK {
			discharged++
			if len(samples) < 6 && len(o.VCs) > 0 && o.VCs[0].Solver != "trivial" {
				samples = append(samples, map[string]interface{}{"obligation": o.Name, "kind": o.Kind, "vcs": len(o.VCs), "backend": o.VCs[0].Solver, "smt_bytes": len(o.VCs[0].SMT), "goal": truncate(o.VCs[0].Goal, 200)})
			}
			if k, ok := knownFor[name]; ok {
				fmt.Printf("NOTE: known finding %s (%s) no longer fails: the entry in known_findings.json is stale\n", name, k.What)
			}
			continue
		}
		if k, ok := knownFor[name]; ok {
			fmt.Printf("KNOWN-FINDING: property=%s %s %s\n", id, name, k.What)
			knownHit = append(knownHit, name)
			total-- // reported separately (known_findings_hit), not as an obligation of the proof
			continue
		}
		violations++
		path, found := replayObligation(P, replayDir, id, o)
		if found {
			fmt.Printf("VIOLATION property=%s replay=%s\n", id, path)
		} else {
			fmt.Printf("VIOLATION property=%s replay=%s no-failing-input-found\n", id, path)
		}
		fmt.Printf("  failed obligation: %s (%s)\n", name, o.Reason)
	}
	// known findings keyed to obligations that no contract generates (documented defects outside the contracts)
	for name, k := range knownFor {
		if _, ok := byName[name]; !ok {
			fmt.Printf("KNOWN-FINDING: property=%s %s %s\n", id, name, k.What)
			knownHit = append(knownHit, name+" (recorded finding; no obligation generated)")
		}
	}
	sort.Strings(knownHit)
	if total == 0 {
		fmt.Printf("VIOLATION property=%s replay=%s no-failing-input-found\n  no obligations were generated (vacuous check)\n", id, filepath.Join(replayDir, "none"))
		violations++
	}

	// evidence
	var funcs, inlined, trusted []string
	var notes []string
	seenS := map[string]bool{}
	for _, r := range fnres {
		funcs = append(funcs, r.Name)
		for _, x := range r.Inlined {
			if !seenS["i"+x] {
				seenS["i"+x] = true
				inlined = append(inlined, x)
			}
		}
		for _, x := range r.Trusted {
			if !seenS["t"+x] {
				seenS["t"+x] = true
				trusted = append(trusted, x)
			}
		}
		for _, x := range r.Notes {
			if !seenS["n"+x] {
				seenS["n"+x] = true
				notes = append(notes, x)
			}
		}
	}
	sort.Strings(inlined)
	sort.Strings(trusted)
	sort.Strings(notes)
	assumptions := append([]string{}, pc.Assumptions...)
	assumptions = append(assumptions, baseAssumptions...)
	for _, n := range notes {
		assumptions = append(assumptions, "engine note: "+n)
	}
	for _, tname := range trusted {
		assumptions = append(assumptions, "trusted library contract (libspec): "+tname)
	}
	slow := map[string]interface{}{}
	if slowest != nil {
		slow = map[string]interface{}{"obligation": slowest.Name, "solver_s": round2(slowest.Secs)}
	}
	cov := map[string]interface{}{
		"obligations":              total,
		"discharged":               discharged,
		"vcs":                      len(all),
		"vacuity_checks":           vacuity,
		"reachability":             map[string]interface{}{"obligations_checked": reachObls, "distinct_contexts": reachCtxs, "dead_contexts": reachDead, "solver_queries": reachQueries, "rule": "an obligation with no live path is not discharged; unsat = dead, anything else = live; goals `false` and generated safe.* obligations are exempt"},
		"checker_cmd":              fmt.Sprintf("bin/govc check --tier %s %s  (VCs from go/ssa of /repo's working tree; solvers z3 5.1.0, z3 4.8.12, cvc5 1.0 raced per VC)", *tier, id),
		"trusted_base":             trustedBase,
		"functions_under_contract": funcs,
		"functions_inlined":        inlined,
		"library_contracts_used":   trusted,
		"backends":                 backends,
		"solver_wall_s":            round2(solveSecs),
		"load_s":                   round2(loadSecs),
		"vcgen_s":                  round2(genSecs),
		"slowest":                  slow,
		"samples":                  samples,
		"known_findings_hit":       knownHit,
		"bounded_standins":         pc.Bounded,
		"integers":                 "mathematical Int with the type's range assumed on loads and a no-overflow obligation on every +,-,* of a fixed-width type; conversions exact (mod)",
		"rule":                     "one obligation = one named contract clause / safety condition of one function; it is discharged when every path VC is unsat",
	}
	if len(samples) == 0 {
		cov["samples"] = []map[string]interface{}{{"note": "no discharged non-trivial obligation"}}
	}
	if *tier == "thorough" && os.Getenv("GOVC_CHILD") == "" {
		st := runSelftest(id)
		cov["must_fail_corpus"] = st
		for _, m := range st.Missed {
			fmt.Printf("SELFTEST-MISS: %s stayed quiet on seeded change %s (verifier weakness, not a violation on /repo)\n", id, m)
		}
		fmt.Printf("must-fail corpus: %d run, %d caught, %d missed, %d skipped\n", st.Ran, st.Caught, len(st.Missed), len(st.Skipped))
		// files whose text can reach one of this property's VCs: those that define a listed function or a
		// function inlined into one (callees are otherwise read through their contracts, which no change
		// of the corpus touches)
		relFiles := map[string]bool{}
		for _, r := range fnres {
			for _, n := range append([]string{r.Name}, r.Inlined...) {
				base := n
				for {
					if fn := P.fns[base]; fn != nil && fn.Pos().IsValid() {
						if rel, err := filepath.Rel(repoRoot, P.prog.Fset.Position(fn.Pos()).Filename); err == nil {
							relFiles[rel] = true
						}
						break
					}
					i := strings.LastIndex(base, "$")
					if i < 0 {
						break
					}
					base = base[:i]
				}
			}
		}
		mustPassFiles = relFiles
		mp := runMustPass(id)
		cov["must_pass_corpus"] = mp
		for _, m := range mp.Alarmed {
			fmt.Printf("SELFTEST-FALSE-ALARM: %s alarmed on behaviour-preserving change %s (verifier weakness, not a violation on /repo)\n", id, m)
		}
		fmt.Printf("must-pass corpus: %d run, %d quiet, %d alarmed, %d expected binding alarms, %d skipped, %d not run (touch no file that defines or is inlined into a function of this property)\n", mp.Ran, mp.Quiet, len(mp.Alarmed), len(mp.Expected), len(mp.Skipped), mp.Unrelated)
		// agreement between the three solvers
		disagree := 0
		for _, vc := range all {
			if strings.Contains(vc.Model, "=sat") && strings.Contains(vc.Model, "=unsat") {
				disagree++
				fmt.Printf("SOLVER-DISAGREEMENT: %s: %s\n", vc.Obl, vc.Model)
			}
		}
		cov["solver_disagreements"] = disagree
	}
	ev := map[string]interface{}{
		"property_id": id,
		"tier":        *tier,
		"seed":        seed,
		"level":       "proof",
		"coverage":    cov,
		"assumptions": assumptions,
		"wall_s":      round2(time.Since(t0).Seconds()),
		"violations":  violations,
	}
	evDir := filepath.Join(verifRoot, "evidence")
	if v := os.Getenv("GOVC_EVIDENCE"); v != "" {
		evDir = v // development runs on a modified tree must not overwrite the committed evidence
	}
	os.MkdirAll(evDir, 0755)
	data, _ := json.MarshalIndent(ev, "", " ")
	if err := os.WriteFile(filepath.Join(evDir, id+".json"), data, 0644); err != nil {
		fmt.Fprintln(os.Stderr, "govc: cannot write evidence:", err)
		return 3
	}
	fmt.Printf("%s [%s]: %d obligations, %d discharged, %d known findings, %d violations; %d VCs, %.1fs (load %.1fs, vcgen %.1fs, solve %.1fs)\n",
		id, *tier, total, discharged, len(knownHit), violations, len(all), time.Since(t0).Seconds(), loadSecs, genSecs, solveSecs)
	if violations > 0 {
		return 1
	}
	return 0
}

func round2(f float64) float64 { return float64(int(f*100+0.5)) / 100 }

func countsFor(pc *PropConfig, vc *VC, sweep bool) bool {
	for _, in := range pc.Include {
		if strings.Contains(vc.Obl, in) {
			return true
		}
	}
	for _, ex := range pc.Exclude {
		if strings.Contains(vc.Obl, ex) {
			return false
		}
	}
	if vc.Kind == "vacuity" || vc.Kind == "canary" {
		return true
	}
	if len(pc.Kinds) > 0 {
		ok := false
		for _, k := range pc.Kinds {
			if vc.Kind == k || strings.HasPrefix(vc.Kind, k) {
				ok = true
			}
		}
		if !ok {
			return false
		}
	}
	if len(pc.Only) > 0 {
		ok := false
		for _, k := range pc.Only {
			if strings.Contains(vc.Obl, k) {
				ok = true
			}
		}
		if !ok {
			return false
		}
	}
	return true
}

var trustedBase = []string{
	"go/packages, go/types, go/ssa (golang.org/x/tools v0.29.0, NaiveForm) and the gc compiler's agreement with them",
	"govc's own SSA-to-SMT translation (tested by the must-fail corpus in /verif/selftest)",
	"z3 5.1.0 / z3 4.8.12 / cvc5 1.0.3 (saturating and E-matching configurations): an 'unsat' answer is trusted (cross-checked between solvers in the thorough tier)",
	"assumed contracts of external packages in /verif/libspec (listed per run under library_contracts_used)",
}

var baseAssumptions = []string{
	"append copies into a fresh backing array, except that in-place growth is modelled exactly when the operand may derive from a reslice made in the same function; spare capacity shared through slices created elsewhere is not modelled",
	"a callee may allocate: heap entries of objects allocated by a callee are constrained only by the callee's postcondition",
	"termination is not proved (partial correctness); recursion and loops are cut by contracts and invariants",
	"strings are an uninterpreted sort with length; no string theory",
	"values stored in non-empty interfaces (other than error) are pointers or struct values: their payload is an allocated reference",
}

// writeReplay records a failed obligation: name, reason, solver output, SMT.
func writeReplay(dir, id string, o *oblResult, extra map[string]interface{}) string {
	os.MkdirAll(dir, 0755)
	base := sanitize(o.Name)
	if len(base) > 120 {
		base = base[:120]
	}
	path := filepath.Join(dir, base+".json")
	rec := map[string]interface{}{
		"property":   id,
		"obligation": o.Name,
		"kind":       o.Kind,
		"reason":     o.Reason,
	}
	var vcs []map[string]interface{}
	for i, vc := range o.VCs {
		if vcGood(vc) {
			continue
		}
		smtPath := filepath.Join(dir, fmt.Sprintf("%s_%d.smt2", base, i))
		os.WriteFile(smtPath, []byte(vc.SMT+"\n(check-sat)\n(get-model)\n"), 0644)
		vcs = append(vcs, map[string]interface{}{"path": vc.Path, "status": vc.Status, "solver": vc.Solver, "solver_output": truncate(vc.Output, 4000), "goal": truncate(vc.Goal, 2000), "smt": smtPath, "source": vc.Pos})
	}
	rec["failed_vcs"] = vcs
	for k, v := range extra {
		rec[k] = v
	}
	data, _ := json.MarshalIndent(rec, "", " ")
	os.WriteFile(path, data, 0644)
	return path
}

// reachAll: a reachability check behind every proof obligation. An obligation that is discharged on every
// path because the assumptions collected on those paths contradict each other (a contradictory requires, an
// over-strong assumed contract, a modelling error of the engine) proves nothing. The assumptions of a VC (the
// VC without its negated goal) are given to a solver; "unsat" means the path is dead. Assumptions only grow
// along a path, so the longest contexts are solved first and every context that is a prefix of a live one is
// live without a query. An obligation none of whose paths is live is reported as a vacuity failure; paths that
// are individually dead are normal (a branch excluded by a callee's contract). Obligations whose goal is
// `false` (a panic, a Fatal call that must be unreachable) are discharged BY a dead path and are skipped.
var reachQueries, reachObls, reachCtxs, reachDead int

type reachCtx struct {
	text   string
	final  uint64
	prefix []uint64
	src    *VC
	done   bool
	live   bool
}

func reachAll(all []*VC, limit int) []*VC {
	byObl := map[string][]*reachCtx{}
	var order []string
	ctxs := map[uint64]*reachCtx{}
	for _, vc := range all {
		if vc.ExpectSat || vc.Known || vc.SMT == "" || vc.Solver == "trivial" || vc.Kind == "effect" || vc.Kind == "lemma" || vc.Kind == "binding" {
			continue
		}
		t := strings.TrimRight(vc.SMT, "\n")
		i := strings.LastIndex(t, "\n(assert ")
		if i < 0 {
			continue
		}
		if g := strings.TrimSpace(t[i+1:]); g == "(assert true)" {
			continue // goal `false`: proved exactly by showing the path dead
		}
		if strings.HasPrefix(vc.Kind, "safe") {
			// generated safety obligations (nil, bounds, overflow) inside a defensive branch that the
			// contracts prove dead (`if err != nil { logrus.Fatal(err) }`) are dead with it: normal.
			// The function-level canary still demands one live return path.
			continue
		}
		text := t[:i+1]
		h := fnv.New64a()
		var pre []uint64
		for _, ln := range strings.SplitAfter(text, "\n") {
			h.Write([]byte(ln))
			if strings.HasPrefix(ln, "(assert ") {
				pre = append(pre, h.Sum64())
			}
		}
		fin := h.Sum64()
		rc := ctxs[fin]
		if rc == nil {
			rc = &reachCtx{text: text, final: fin, prefix: pre, src: vc}
			ctxs[fin] = rc
		}
		if _, ok := byObl[vc.Obl]; !ok {
			order = append(order, vc.Obl)
		}
		byObl[vc.Obl] = append(byObl[vc.Obl], rc)
	}
	liveHash := map[uint64]bool{}
	for {
		// undecided contexts that are not a proper prefix of another undecided context
		inner := map[uint64]bool{}
		var undecided []*reachCtx
		for _, rc := range ctxs {
			if rc.done {
				continue
			}
			if liveHash[rc.final] {
				rc.done, rc.live = true, true
				continue
			}
			undecided = append(undecided, rc)
		}
		if len(undecided) == 0 {
			break
		}
		for _, rc := range undecided {
			for _, p := range rc.prefix {
				if p != rc.final {
					inner[p] = true
				}
			}
		}
		var batch []*VC
		var owners []*reachCtx
		for _, rc := range undecided {
			if inner[rc.final] {
				continue
			}
			batch = append(batch, &VC{Obl: rc.src.Obl + "/reach", Kind: "reach", Fn: rc.src.Fn, Path: rc.src.Path, ExpectSat: true, Goal: "the assumptions on this path are satisfiable", SMT: rc.text, Pos: rc.src.Pos})
			owners = append(owners, rc)
		}
		if len(batch) == 0 { // cannot happen (a longest undecided context is never inner); guard against a hash collision
			for _, rc := range undecided {
				rc.done, rc.live = true, true
			}
			break
		}
		reachLimit = limit
		solveAll(batch, limit, "quick1", 16)
		reachQueries += len(batch)
		for i, rv := range batch {
			rc := owners[i]
			rc.done = true
			if vcGood(rv) {
				rc.live = true
				liveHash[rc.final] = true
				for _, p := range rc.prefix {
					liveHash[p] = true
				}
			}
		}
	}
	reachObls, reachCtxs = len(order), len(ctxs)
	for _, rc := range ctxs {
		if !rc.live {
			reachDead++
		}
	}
	if os.Getenv("GOVC_REACH_STATS") != "" {
		nl := 0
		for _, rc := range ctxs {
			if rc.live {
				nl++
			}
		}
		fmt.Fprintf(os.Stderr, "reach: %d obligations, %d distinct contexts (%d live), %d queries\n", len(order), len(ctxs), nl, reachQueries)
		for _, rc := range ctxs {
			if !rc.live {
				fmt.Fprintf(os.Stderr, "reach: dead context: %s path=%s (first obligation %s) %s\n", rc.src.Fn, rc.src.Path, rc.src.Obl, rc.src.Pos)
			}
		}
	}
	var out []*VC
	for _, o := range order {
		alive := false
		for _, rc := range byObl[o] {
			if rc.live {
				alive = true
			}
		}
		if !alive {
			src := byObl[o][0].src
			out = append(out, &VC{Obl: o, Kind: "reach", Fn: src.Fn, Path: src.Path, Status: "unsat", Solver: "reachability", Goal: "reachable on at least one path", Pos: src.Pos,
				Output: fmt.Sprintf("the assumptions are contradictory on every one of the %d path(s) that reach this obligation: it is discharged vacuously", len(byObl[o]))})
		}
	}
	return out
}
