package main

// Thorough tier: must-fail corpus. Every seeded change (and every revert of a
// fix commit) recorded for the property is applied to a scratch copy of /repo's
// working tree (outside /repo and /verif, removed afterwards) and the property's
// quick check is run against the copy: it must raise an alarm. A miss is a
// weakness of the verifier (reported in evidence and on stdout); it is not a
// violation of the property on /repo.

import (
	"encoding/json"
	"fmt"
	"os"
	"os/exec"
	"path/filepath"
	"sort"
	"strings"
)

type selftestResult struct {
	Ran     int      `json:"ran"`
	Caught  int      `json:"caught"`
	Missed  []string `json:"missed"`
	Skipped []string `json:"skipped"`
	Details []string `json:"details"`
}

func runSelftest(id string) *selftestResult {
	res := &selftestResult{}
	type job struct{ name, patch string; reverse bool }
	var jobs []job
	// expected catches: /verif/seeded/<seed>/meta.json may list "caught_by": [ids]
	dirs, _ := filepath.Glob(filepath.Join(verifRoot, "seeded", "*"))
	sort.Strings(dirs)
	for _, d := range dirs {
		data, err := os.ReadFile(filepath.Join(d, "meta.json"))
		if err != nil {
			continue
		}
		var m struct {
			Property string   `json:"property"`
			CaughtBy []string `json:"caught_by"`
		}
		json.Unmarshal(data, &m)
		want := m.Property == id && len(m.CaughtBy) == 0
		for _, c := range m.CaughtBy {
			if c == id {
				want = true
			}
		}
		if want {
			jobs = append(jobs, job{filepath.Base(d), filepath.Join(d, "patch.diff"), false})
		}
	}
	// reverts of fix commits: /verif/selftest/reverts/<property>/*.diff (the fix as a patch, applied in reverse)
	revs, _ := filepath.Glob(filepath.Join(verifRoot, "selftest", "reverts", id, "*.diff"))
	sort.Strings(revs)
	for _, r := range revs {
		jobs = append(jobs, job{"revert-" + strings.TrimSuffix(filepath.Base(r), ".diff"), r, true})
	}
	for _, j := range jobs {
		scratch, err := os.MkdirTemp("", "govc-scratch-")
		if err != nil {
			res.Skipped = append(res.Skipped, j.name+": "+err.Error())
			continue
		}
		func() {
			defer os.RemoveAll(scratch)
			cp := exec.Command("rsync", "-a", "--exclude", ".git", repoRoot+"/", scratch+"/")
			if out, err := cp.CombinedOutput(); err != nil {
				res.Skipped = append(res.Skipped, j.name+": copy failed: "+string(out))
				return
			}
			args := []string{"apply", "--unsafe-paths", "--directory=" + scratch}
			if j.reverse {
				args = append(args, "-R")
			}
			args = append(args, j.patch)
			ap := exec.Command("git", args...)
			ap.Dir = scratch
			if out, err := ap.CombinedOutput(); err != nil {
				// not inside a repository: fall back to patch(1)
				pa := []string{"-p1", "-s", "-d", scratch, "-i", j.patch}
				if j.reverse {
					pa = append([]string{"-R"}, pa...)
				}
				if out2, err2 := exec.Command("patch", pa...).CombinedOutput(); err2 != nil {
					res.Skipped = append(res.Skipped, fmt.Sprintf("%s: patch does not apply (%s / %s)", j.name, strings.TrimSpace(string(out)), strings.TrimSpace(string(out2))))
					return
				}
			}
			evd, _ := os.MkdirTemp("", "govc-scratch-ev-")
			defer os.RemoveAll(evd)
			self, _ := os.Executable()
			c := exec.Command(self, "check", "--tier", "quick", id)
			c.Env = append(os.Environ(), "GOVC_REPO="+scratch, "GOVC_EVIDENCE="+evd, "VERIF_TIER=quick", "GOVC_CHILD=1")
			out, err := c.CombinedOutput()
			res.Ran++
			if err != nil && strings.Contains(string(out), "VIOLATION property="+id) {
				res.Caught++
				first := ""
				for _, l := range strings.Split(string(out), "\n") {
					if strings.Contains(l, "failed obligation:") {
						first = strings.TrimSpace(l)
						break
					}
				}
				res.Details = append(res.Details, j.name+": caught — "+truncate(first, 160))
			} else {
				res.Missed = append(res.Missed, j.name)
				res.Details = append(res.Details, j.name+": MISSED (the check stayed quiet on the changed copy)")
			}
		}()
	}
	return res
}

// Thorough tier: must-pass corpus. Every behaviour-preserving change under
// /verif/benign/<id>/patch.diff is applied to a scratch copy and the property's
// quick check is run against it: it must stay quiet. An alarm here is a false
// alarm of the verifier (reported in evidence and on stdout as SELFTEST-FALSE-ALARM);
// it is not a violation of the property on /repo. Changes listed in
// /verif/benign/EXPECTED_BINDING.txt are known to need a contract edit (the
// contract names a loop that the change restructures) and are reported as such.
type mustPassResult struct {
	Ran      int      `json:"ran"`
	Quiet    int      `json:"quiet"`
	Alarmed  []string `json:"alarmed"`
	Expected []string `json:"expected_binding_alarms"`
	Skipped  []string `json:"skipped"`
	Unrelated int     `json:"not_run_touching_no_package_of_this_property,omitempty"`
}

func runMustPass(id string) *mustPassResult {
	res := &mustPassResult{}
	patches, _ := filepath.Glob(filepath.Join(verifRoot, "benign", "*", "patch.diff"))
	sort.Strings(patches)
	expected := map[string]bool{}
	if data, err := os.ReadFile(filepath.Join(verifRoot, "benign", "EXPECTED_BINDING.txt")); err == nil {
		for _, l := range strings.Split(string(data), "\n") {
			if f := strings.Fields(l); len(f) > 0 && !strings.HasPrefix(f[0], "#") {
				expected[f[0]] = true
			}
		}
	}
	type out struct {
		name, verdict, detail string
	}
	// a change that touches no package in which a function of this property lives cannot alter one of its
	// VCs (bodies are read per function, callees through their contracts, contract files are not patched):
	// only the changes that do are run (the full cross product is what tools/benign.sh does)
	if dirs := propertyDirs(id); len(dirs) > 0 {
		var rel []string
		for _, p := range patches {
			data, _ := os.ReadFile(p)
			hit := false
			for _, l := range strings.Split(string(data), "\n") {
				if strings.HasPrefix(l, "+++ b/") || strings.HasPrefix(l, "--- a/") {
					f := strings.TrimSpace(l[6:])
					if len(mustPassFiles) > 0 {
						// a new file in a package of the property counts too (a helper moved out of a listed function)
						if mustPassFiles[f] || (strings.HasPrefix(l, "+++ b/") && dirs[filepath.Dir(f)] && !fileExists(filepath.Join(repoRoot, f))) {
							hit = true
						}
					} else if dirs[filepath.Dir(f)] {
						hit = true
					}
				}
			}
			if hit {
				rel = append(rel, p)
			} else {
				res.Unrelated++
			}
		}
		patches = rel
	}
	results := make([]out, len(patches))
	sem := make(chan struct{}, 4)
	done := make(chan int, len(patches))
	self, _ := os.Executable()
	for i, p := range patches {
		go func(i int, p string) {
			sem <- struct{}{}
			defer func() { <-sem; done <- i }()
			name := filepath.Base(filepath.Dir(p))
			scratch, err := os.MkdirTemp("", "govc-scratch-")
			if err != nil {
				results[i] = out{name, "skipped", err.Error()}
				return
			}
			defer os.RemoveAll(scratch)
			if o, err := exec.Command("rsync", "-a", "--exclude", ".git", repoRoot+"/", scratch+"/").CombinedOutput(); err != nil {
				results[i] = out{name, "skipped", "copy failed: " + string(o)}
				return
			}
			if o, err := exec.Command("patch", "-p1", "-s", "-d", scratch, "-i", p).CombinedOutput(); err != nil {
				results[i] = out{name, "skipped", "patch does not apply to the current tree: " + strings.TrimSpace(string(o))}
				return
			}
			evd, _ := os.MkdirTemp("", "govc-scratch-ev-")
			defer os.RemoveAll(evd)
			c := exec.Command(self, "check", "--tier", "quick", id)
			c.Env = append(os.Environ(), "GOVC_REPO="+scratch, "GOVC_EVIDENCE="+evd, "VERIF_TIER=quick", "GOVC_CHILD=1")
			o, err := c.CombinedOutput()
			if err == nil {
				results[i] = out{name, "quiet", ""}
				return
			}
			first := ""
			for _, l := range strings.Split(string(o), "\n") {
				if strings.Contains(l, "failed obligation:") {
					first = strings.TrimSpace(l)
					break
				}
			}
			results[i] = out{name, "alarm", truncate(first, 200)}
		}(i, p)
	}
	for range patches {
		<-done
	}
	for _, r := range results {
		switch r.verdict {
		case "skipped":
			res.Skipped = append(res.Skipped, r.name+": "+r.detail)
		case "quiet":
			res.Ran++
			res.Quiet++
		case "alarm":
			res.Ran++
			if expected[r.name] && strings.Contains(r.detail, ":binding") {
				res.Expected = append(res.Expected, r.name+": "+r.detail)
			} else {
				res.Alarmed = append(res.Alarmed, r.name+": "+r.detail)
			}
		}
	}
	return res
}

var mustPassFiles map[string]bool

func fileExists(p string) bool { _, err := os.Stat(p); return err == nil }

// propertyDirs: the package directories of the functions listed for a property (nil = unknown, run everything).
func propertyDirs(id string) map[string]bool {
	pkgDir := map[string]string{"scheduler": "pkg/scheduler", "runner": "pkg/runner", "executor": "pkg/executor", "variables": "pkg/variables",
		"output": "pkg/output", "utils": "pkg/utils", "task": "pkg/task", "config": "internal/config", "watch": "internal/watch", "main": "cmd/taskctl"}
	pc := loadProps()[id]
	if pc == nil {
		return nil
	}
	dirs := map[string]bool{}
	for _, f := range append(append([]string{}, pc.Functions...), pc.Sweep...) {
		name := strings.SplitN(f, "|", 2)[0]
		d, ok := pkgDir[strings.SplitN(name, ".", 2)[0]]
		if !ok {
			return nil
		}
		dirs[d] = true
	}
	for _, lp := range pc.LemmaPkgs {
		if d, ok := pkgDir[lp]; ok {
			dirs[d] = true
		}
	}
	return dirs
}
