package main

// Symbolic executor over go/ssa (NaiveForm): generates verification conditions
// function by function. Calls are replaced by contracts (or inlined accessors),
// loops are cut at their heads with inductive invariants.

import (
	"fmt"
	"go/ast"
	"go/constant"
	"go/token"
	"go/types"
	"sort"
	"strings"

	"golang.org/x/tools/go/ssa"
)

// ---------------------------------------------------------------- values

type Value interface{}

// CellPtr is the address of a non-escaping local variable.
type CellPtr struct {
	A  *ssa.Alloc
	Fr *Frame
}

// Loc is the address of a scalar heap location: heap[Key][Idx[0]]([Idx[1]]).
type Loc struct {
	Key  string
	Sort Sort // sort of the whole heap array
	Idx  []Term
	Obj  types.Type // static type of the pointee
}

type Tuple []Value

type Closure struct {
	Fn   *ssa.Function
	Bind []Value
}

type FuncRef struct{ Fn *ssa.Function }

type Iter struct {
	id   int
	IsMap bool
	M    Term
	MT   *types.Map
}

type Unit struct{}

// ---------------------------------------------------------------- state

type Frame struct {
	fn     *ssa.Function
	regs   map[ssa.Value]Value
	cells  map[*ssa.Alloc]Term
	defers []deferred
	parent *Frame
	k      func(st *State, results []Value) // continuation at return
	depth  int
	inline bool
	entry  *HeapSnap
	params map[string]Term // entry values of parameters by name
	callN  map[string]int
	site   string // for inlined frames: the call site (chain)
	glocals map[string]Term // per-activation ghost variables (top frame only)
}

type deferred struct {
	call *ssa.CallCommon
	args []Value
	fnv  Value
	pos  token.Pos
}

// Assump is one path-condition entry; G names the proof slice it belongs to
// ("" = every slice).
type Assump struct {
	T Term
	G string
}

type HeapSnap struct {
	m     map[string]Term
	epoch int
}

type State struct {
	fr     *Frame
	heap   map[string]Term
	epoch  int
	pc     []Assump
	path   []string
	seen   map[int]Term // iterator id -> visited set
	counts map[string]Term
	dead   bool
	rgClean map[string]string
}

func (st *State) clone() *State {
	n := &State{heap: make(map[string]Term, len(st.heap)), epoch: st.epoch, seen: map[int]Term{}, counts: map[string]Term{}}
	for k, v := range st.heap {
		n.heap[k] = v
	}
	for k, v := range st.seen {
		n.seen[k] = v
	}
	for k, v := range st.counts {
		n.counts[k] = v
	}
	if st.rgClean != nil {
		n.rgClean = map[string]string{}
		for k, v := range st.rgClean {
			n.rgClean[k] = v
		}
	}
	n.pc = append([]Assump(nil), st.pc...)
	n.path = append([]string(nil), st.path...)
	// copy the frame chain
	var copyFr func(f *Frame) *Frame
	copyFr = func(f *Frame) *Frame {
		if f == nil {
			return nil
		}
		c := *f
		c.regs = make(map[ssa.Value]Value, len(f.regs))
		for k, v := range f.regs {
			c.regs[k] = v
		}
		c.cells = make(map[*ssa.Alloc]Term, len(f.cells))
		for k, v := range f.cells {
			c.cells[k] = v
		}
		c.defers = append([]deferred(nil), f.defers...)
		c.callN = map[string]int{}
		for k, v := range f.callN {
			c.callN[k] = v
		}
		if f.glocals != nil {
			c.glocals = map[string]Term{}
			for k, v := range f.glocals {
				c.glocals[k] = v
			}
		}
		c.parent = copyFr(f.parent)
		return &c
	}
	n.fr = copyFr(st.fr)
	// CellPtr values point at frames: remap them
	remap := map[*Frame]*Frame{}
	for a, b := st.fr, n.fr; a != nil; a, b = a.parent, b.parent {
		remap[a] = b
	}
	for f := n.fr; f != nil; f = f.parent {
		for k, v := range f.regs {
			if cp, ok := v.(*CellPtr); ok {
				if nf := remap[cp.Fr]; nf != nil {
					f.regs[k] = &CellPtr{cp.A, nf}
				}
			}
			if cl, ok := v.(*Closure); ok {
				nb := make([]Value, len(cl.Bind))
				for i, b := range cl.Bind {
					nb[i] = b
					if cp, ok := b.(*CellPtr); ok {
						if nf := remap[cp.Fr]; nf != nil {
							nb[i] = &CellPtr{cp.A, nf}
						}
					}
				}
				f.regs[k] = &Closure{cl.Fn, nb}
			}
		}
		for i, d := range f.defers {
			if cl, ok := d.fnv.(*Closure); ok {
				nb := make([]Value, len(cl.Bind))
				for j, b := range cl.Bind {
					nb[j] = b
					if cp, ok := b.(*CellPtr); ok {
						if nf := remap[cp.Fr]; nf != nil {
							nb[j] = &CellPtr{cp.A, nf}
						}
					}
				}
				f.defers[i].fnv = &Closure{cl.Fn, nb}
			}
		}
	}
	return n
}

func (st *State) assume(t Term) { st.assumeG(t, "") }

func (st *State) assumeG(t Term, g string) {
	if t.S == "true" {
		return
	}
	st.pc = append(st.pc, Assump{t, g})
}

// labelGroup: a clause label "A.name" belongs to proof slice "A".
func labelGroup(label string) string {
	if i := strings.Index(label, "."); i > 0 {
		return label[:i]
	}
	return ""
}

// ---------------------------------------------------------------- session

// Session verifies one function.
type Session struct {
	reslice map[*ssa.CallCommon]bool // appends whose operand may be a reslice (see resliceAppends)
	P      *Prog
	fn     *ssa.Function
	name   string
	con    *Contract
	spec   *PkgSpec
	D      *Decls
	vcs    []*VC
	hsort  map[string]Sort
	loops  map[*ssa.BasicBlock]*loopInfo
	lits   map[string]Term
	oblN   map[string]int
	paths  int
	notes  []string
	inlined map[string]bool
	trusted map[string]bool
	usedCon map[string]bool
	iterN  int
	curSite string
	curInstr ssa.Instruction
	sweep  bool // zero-annotation mode: callees without contracts are havoc-all
	rg     *rgInfo
	maxPaths int
	mergeOn  bool
	pending  map[*ssa.BasicBlock][]parked
	rpo      map[*ssa.BasicBlock]int
	fwdPreds map[*ssa.BasicBlock]int
	rpoDone  map[*ssa.Function]bool
	resumeBlock *ssa.BasicBlock
}

type loopInfo struct {
	head     *ssa.BasicBlock
	ord      int
	blocks   map[*ssa.BasicBlock]bool
	cells    []*ssa.Alloc
	keys     map[string]Sort
	modAll   bool
	spec     *LoopSpec
	text     string
	rangeIdx *ssa.Alloc
	idxCell  *ssa.Alloc // counter of a canonical index loop (for i := ..; i < n; i++): rangeindex == i - 1
	iters    []*ssa.Range
}

func (s *Session) heapSort(key string, sort Sort) {
	if old, ok := s.hsort[key]; ok && old != sort {
		fatalf("heap key %s used with sorts %s and %s", key, old, sort)
	}
	s.hsort[key] = sort
}

// H returns the current value of heap entry key.
func (s *Session) H(st *State, key string, sort Sort) Term {
	s.heapSort(key, sort)
	if t, ok := st.heap[key]; ok {
		return t
	}
	name := fmt.Sprintf("%s@%d", key, st.epoch)
	if !s.D.Has("c:" + name) {
		t := s.D.Const(name, sort)
		if key != "$brk" {
			brk := s.D.Const(fmt.Sprintf("$brk@%d", st.epoch), SInt)
			if cl := closureOf(key, t, brk); cl.S != "true" {
				s.D.Axiom("closure:"+name, cl.S)
			}
		}
		return t
	}
	return Term{name, sort}
}

// sliceWFAlloc: sliceWF for a cell of object i; the type invariant holds of every cell, the bound by the
// allocation mark only of cells of allocated objects (i <= brk): the fields of an object a callee allocates
// later ("fresh(result.f)") live in the same array and point above today's mark.
func sliceWFAlloc(i, e, brk string) string {
	return fmt.Sprintf("(and (<= 0 (sarr %s)) (=> (<= %s %s) (<= (sarr %s) %s)) (<= 0 (soff %s)) (<= 0 (slen %s)) (<= (slen %s) (scap %s)) (=> (= (sarr %s) 0) (= (scap %s) 0)))", e, i, brk, e, brk, e, e, e, e, e, e)
}

func sliceWF(e, brk string) string {
	return fmt.Sprintf("(and (<= 0 (sarr %s)) (<= (sarr %s) %s) (<= 0 (soff %s)) (<= 0 (slen %s)) (<= (slen %s) (scap %s)) (=> (= (sarr %s) 0) (= (scap %s) 0)))", e, e, brk, e, e, e, e, e, e)
}

// closureOf: every slice stored in heap entry a refers to an allocated backing
// array (reference <= brk): the heap is closed under allocation.
func closureOf(key string, a Term, brk Term) Term {
	isRef := strings.HasSuffix(key, "_Ref")
	if isRef && strings.HasPrefix(key, "MapDom_") {
		isRef = false
	}
	if isRef {
		switch {
		case a.Sort == ArrSort(SInt, SInt):
			e := fmt.Sprintf("(select %s i!c)", a.S)
			return Term{fmt.Sprintf("(forall ((i!c Int)) (! (=> (<= i!c %s) (<= %s %s)) :pattern (%s)))", brk.S, e, brk.S, e), SBool}
		case strings.HasPrefix(string(a.Sort), "(Array Int (Array ") && strings.HasSuffix(string(a.Sort), " Int))"):
			inner := idxSortOf(elemSortOf(a.Sort))
			e := fmt.Sprintf("(select (select %s i!c) k!c)", a.S)
			return Term{fmt.Sprintf("(forall ((i!c Int) (k!c %s)) (! (=> (<= i!c %s) (<= %s %s)) :pattern (%s)))", inner, brk.S, e, brk.S, e), SBool}
		}
	}
	switch a.Sort {
	case ArrSort(SInt, SSlice):
		e := fmt.Sprintf("(select %s i!c)", a.S)
		return Term{fmt.Sprintf("(forall ((i!c Int)) (! %s :pattern (%s)))", sliceWFAlloc("i!c", e, brk.S), e), SBool}
	}
	so := string(a.Sort)
	if strings.HasPrefix(so, "(Array Int (Array ") && strings.HasSuffix(so, " Slice))") {
		inner := idxSortOf(elemSortOf(a.Sort))
		e := fmt.Sprintf("(select (select %s i!c) k!c)", a.S)
		return Term{fmt.Sprintf("(forall ((i!c Int) (k!c %s)) (! %s :pattern (%s)))", inner, sliceWFAlloc("i!c", e, brk.S), e), SBool}
	}
	return TTrue
}

func (s *Session) HSnap(sn *HeapSnap, key string, sort Sort) Term {
	s.heapSort(key, sort)
	if t, ok := sn.m[key]; ok {
		return t
	}
	return s.D.Const(fmt.Sprintf("%s@%d", key, sn.epoch), sort)
}

func (s *Session) setH(st *State, key string, sort Sort, v Term) {
	s.heapSort(key, sort)
	// name the new heap value to keep terms small
	n := s.D.Fresh(key, sort)
	st.assume(Eq(n, v))
	st.heap[key] = n
}

func (s *Session) snap(st *State) *HeapSnap {
	m := make(map[string]Term, len(st.heap))
	for k, v := range st.heap {
		m[k] = v
	}
	return &HeapSnap{m, st.epoch}
}

var epochCounter int

func (s *Session) havocAll(st *State) {
	oldBrk := s.H(st, "$brk", SInt)
	epochCounter++
	// captured local variables (Box cells) are not reachable by callees that were
	// not handed their address: they survive (listed assumption)
	keep := map[string]Term{}
	for k, v := range st.heap {
		if strings.HasPrefix(k, "Box_") {
			keep[k] = v
		}
	}
	for k, so := range s.hsort {
		if strings.HasPrefix(k, "Box_") {
			if _, ok := keep[k]; !ok {
				keep[k] = s.H(st, k, so)
			}
		}
	}
	st.heap = keep
	st.epoch = epochCounter
	// ... except those whose address was handed to other code (call arguments, stores)
	for f := st.fr; f != nil; f = f.parent {
		for v, r := range f.regs {
			a, ok := v.(*ssa.Alloc)
			if !ok || !a.Heap {
				continue
			}
			ref, isT := r.(Term)
			t := a.Type().Underlying().(*types.Pointer).Elem()
			if !isT || isStructLike(t) || !s.addrEscapes(a) {
				continue
			}
			k, so := boxKey(t)
			cur := s.H(st, k, so)
			nv := s.freshTyped(st, "esc_"+a.Comment, t)
			st.heap[k] = Store(cur, ref, nv)
		}
	}
	nb := s.H(st, "$brk", SInt)
	st.assume(Le(oldBrk, nb))
	s.assumeGlobalInvs(st)
}

// assumeGlobalInvs: declared invariants of package-level variables (checked at
// every store to such a variable) hold in the current heap.
func (s *Session) assumeGlobalInvs(st *State) {
	for path, sp := range s.P.specs {
		for _, gi := range sp.GlobalInvs {
			env := &Env{s: s, pkg: s.pkgTypes(path), spec: sp, st: st, vars: map[string]EVal{}, bound: map[string]EVal{}}
			st.assume(s.evalBool(st, env, gi.E, gi.Src))
		}
	}
}

func (s *Session) checkGlobalInvs(st *State, pos token.Pos) {
	for path, sp := range s.P.specs {
		for i, gi := range sp.GlobalInvs {
			env := &Env{s: s, pkg: s.pkgTypes(path), spec: sp, st: st, vars: map[string]EVal{}, bound: map[string]EVal{}}
			s.check(st, "globalinv", s.obl("globalinv#"+clauseLabel(gi, i), ""), s.evalBool(st, env, gi.E, gi.Src), pos)
		}
	}
}

// addrEscapes: the address of local a is passed to a call or stored (so code
// other than the closures capturing it may write it).
func (s *Session) addrEscapes(a *ssa.Alloc) bool {
	if a.Referrers() == nil {
		return false
	}
	for _, r := range *a.Referrers() {
		switch x := r.(type) {
		case *ssa.Call:
			for _, arg := range x.Call.Args {
				if arg == a {
					return true
				}
			}
		case *ssa.Go:
			for _, arg := range x.Call.Args {
				if arg == a {
					return true
				}
			}
		case *ssa.Defer:
			for _, arg := range x.Call.Args {
				if arg == a {
					return true
				}
			}
		case *ssa.Store:
			if x.Val == a {
				return true
			}
		case *ssa.MakeInterface:
			return true
		case *ssa.ChangeType, *ssa.Convert:
			return true
		}
	}
	return false
}

func (s *Session) havocKey(st *State, key string) {
	sort, ok := s.hsort[key]
	if !ok {
		return
	}
	if key == "$brk" {
		old := s.H(st, key, sort)
		n := s.D.Fresh(key, sort)
		st.heap[key] = n
		st.assume(Le(old, n))
		return
	}
	n := s.D.Fresh(key, sort)
	st.heap[key] = n
	st.assume(closureOf(key, n, s.H(st, "$brk", SInt)))
}

func (s *Session) fresh(hint string, sort Sort) Term { return s.D.Fresh(hint, sort) }

// alloc returns a fresh non-nil reference.
func (s *Session) alloc(st *State, hint string) Term {
	r := s.fresh(hint, SInt)
	brk := s.H(st, "$brk", SInt)
	st.assume(Lt(brk, r))
	st.assume(Lt(TZero, r))
	st.heap["$brk"] = r
	return r
}

func (s *Session) strLit(v string) Term {
	if v == "" {
		return Term{"str_empty", SStr}
	}
	if t, ok := s.lits[v]; ok {
		return t
	}
	name := fmt.Sprintf("lit%d_%s", len(s.lits), sanitize(truncate(v, 16)))
	t := s.D.Const(name, SStr)
	s.D.Axiom("len:"+name, fmt.Sprintf("(= (strlen %s) %d)", name, len(v)))
	for _, o := range s.lits {
		s.D.Axiom("ne:"+name+":"+o.S, fmt.Sprintf("(not (= %s %s))", name, o.S))
	}
	s.lits[v] = t
	return t
}

func truncate(s string, n int) string {
	if len(s) > n {
		return s[:n]
	}
	return s
}

// ---------------------------------------------------------------- obligations

func (s *Session) oblName(kind, detail string) string {
	base := kind
	if detail != "" {
		base += "(" + detail + ")"
	}
	return s.name + ":" + base
}

// check emits a VC: under the current path condition, goal must hold.
func (s *Session) check(st *State, kind, name string, goal Term, pos token.Pos) {
	s.checkG(st, kind, name, goal, pos, "")
}

// checkG: as check, for a goal of proof slice g: assumptions of other slices are left out.
func (s *Session) checkG(st *State, kind, name string, goal Term, pos token.Pos, g string) {
	if s.con != nil {
		if why, ok := s.con.Waive[kind]; ok {
			s.note("WAIVED obligation kind " + kind + " in " + s.name + ": " + why)
			return
		}
	}
	if goal.S == "true" {
		// still count it: trivially discharged by the generator
		s.vcs = append(s.vcs, &VC{Obl: name, Kind: kind, Fn: s.name, Path: strings.Join(st.path, ""), Goal: "true", Status: "unsat", Solver: "trivial", Pos: s.P.pos(pos)})
		return
	}
	vc := &VC{Obl: name, Kind: kind, Fn: s.name, Path: strings.Join(st.path, ""), Goal: goal.S, Pos: s.P.pos(pos)}
	vc.SMT = s.vcText(st, Not(goal), g)
	s.vcs = append(s.vcs, vc)
}

func (s *Session) vcText(st *State, negGoal Term, g string) string {
	var b strings.Builder
	b.WriteString("; __DECLS__\n")
	for _, a := range st.pc {
		if g != "*" && g != "" && a.G != "" && a.G != g {
			continue
		}
		b.WriteString("(assert ")
		b.WriteString(a.T.S)
		b.WriteString(")\n")
	}
	b.WriteString("(assert ")
	b.WriteString(negGoal.S)
	b.WriteString(")\n")
	return b.String()
}

// finalize substitutes the declarations (known only at the end) into every VC.
func (s *Session) finalize() {
	decls := smtPrelude + s.D.Text() + "\n"
	for _, vc := range s.vcs {
		if vc.SMT != "" {
			vc.SMT = strings.Replace(vc.SMT, "; __DECLS__\n", decls, 1)
		}
	}
}

// ---------------------------------------------------------------- typing assumptions

// wellTyped returns the facts every value of Go type t satisfies.
func (s *Session) wellTyped(st *State, t types.Type, v Term) Term {
	if lo, hi, ok := intRange(t); ok {
		return And(Le(BigLit(lo), v), Le(v, BigLit(hi)))
	}
	switch t.Underlying().(type) {
	case *types.Slice:
		return And(Le(TZero, SLen(v)), Le(SLen(v), SCap(v)), Le(TZero, SOff(v)), Le(TZero, SArr(v)), Le(SArr(v), s.H(st, "$brk", SInt)),
			Implies(Eq(SArr(v), TZero), Eq(SCap(v), TZero)), Le(SCap(v), BigLit("1152921504606846976")))
	case *types.Pointer, *types.Map, *types.Chan:
		return Le(v, s.H(st, "$brk", SInt)) // sub-object and escaped-local references are negative
	case *types.Signature:
		return TTrue
	case *types.Interface:
		base := And(Le(TZero, ITag(v)), Implies(Eq(ITag(v), TZero), Eq(IVal(v), TZero)))
		if u := t.Underlying().(*types.Interface); u.NumMethods() > 0 && !isErrorType(t) {
			// values of a non-empty interface are pointers or struct values in this code base:
			// their payload is an allocated reference (assumption listed in evidence)
			return And(base, Le(IVal(v), s.H(st, "$brk", SInt)))
		}
		return base
	case *types.Struct, *types.Array:
		if isOpaque(t) {
			return TTrue // values of external struct types are abstract
		}
		return And(Lt(TZero, v), Le(v, s.H(st, "$brk", SInt)))
	}
	return TTrue
}

func isErrorType(t types.Type) bool {
	return types.Identical(t, types.Universe.Lookup("error").Type())
}

func (s *Session) freshTyped(st *State, hint string, t types.Type) Term {
	v := s.fresh(hint, sortOf(t))
	st.assume(s.wellTyped(st, t, v))
	return v
}

// ---------------------------------------------------------------- boxing for interfaces

func (s *Session) box(v Term) Term {
	switch v.Sort {
	case SInt:
		return v
	case SBool:
		return Ite(v, IntLit(1), TZero)
	case SStr:
		return mk(SInt, "box_Str", v)
	case SSlice:
		return mk(SInt, "box_Slice", v)
	case SIface:
		return mk(SInt, "box_Iface", v)
	}
	panic("box: " + string(v.Sort))
}
func (s *Session) unbox(v Term, sort Sort) Term {
	switch sort {
	case SInt:
		return v
	case SBool:
		return Not(Eq(v, TZero))
	case SStr:
		return mk(SStr, "unbox_Str", v)
	case SSlice:
		return mk(SSlice, "unbox_Slice", v)
	case SIface:
		return mk(SIface, "unbox_Iface", v)
	}
	panic("unbox: " + string(sort))
}

// ---------------------------------------------------------------- loads and stores

func (s *Session) subRef(st *State, stype types.Type, i int, obj Term) Term {
	name := subName(stype, i)
	s.D.Fun(name, []Sort{SInt}, SInt)
	s.D.Fun("un"+name, []Sort{SInt}, SInt)
	r := mk(SInt, name, obj)
	st.assume(And(Lt(r, TZero), Eq(mk(SInt, "un"+name, r), obj)))
	return r
}

func (s *Session) loadLoc(st *State, l *Loc) Term {
	a := s.H(st, l.Key, l.Sort)
	v := Select(a, l.Idx[0])
	if len(l.Idx) == 2 {
		v = Select(v, l.Idx[1])
	}
	return v
}

func (s *Session) storeLoc(st *State, l *Loc, v Term) {
	a := s.H(st, l.Key, l.Sort)
	if len(l.Idx) == 1 {
		s.setH(st, l.Key, l.Sort, Store(a, l.Idx[0], v))
	} else {
		inner := Select(a, l.Idx[0])
		s.setH(st, l.Key, l.Sort, Store(a, l.Idx[0], Store(inner, l.Idx[1], v)))
	}
}

// copyStruct copies the value of the struct/array object src into dst.
func (s *Session) copyStruct(st *State, t types.Type, dst, src Term) {
	switch u := t.Underlying().(type) {
	case *types.Struct:
		if u.NumFields() == 0 || isOpaque(t) {
			k, so := "F_"+typeKey(t)+"_$state", ArrSort(SInt, SInt)
			a := s.H(st, k, so)
			s.setH(st, k, so, Store(a, dst, Select(a, src)))
			// exported scalar fields of external structs are read directly by the code (fsnotify.Event.Op, ...)
			for i := 0; i < u.NumFields(); i++ {
				if f := u.Field(i); f.Exported() && !isStructLike(f.Type()) {
					fk, fso := fieldKey(t, i)
					fa := s.H(st, fk, fso)
					s.setH(st, fk, fso, Store(fa, dst, Select(fa, src)))
				}
			}
			return
		}
		for i := 0; i < u.NumFields(); i++ {
			ft := u.Field(i).Type()
			if isStructLike(ft) {
				s.copyStruct(st, ft, s.subRef(st, t, i, dst), s.subRef(st, t, i, src))
				continue
			}
			k, so := fieldKey(t, i)
			a := s.H(st, k, so)
			s.setH(st, k, so, Store(a, dst, Select(a, src)))
		}
	case *types.Array:
		k, so := elemKey(u.Elem())
		a := s.H(st, k, so)
		s.setH(st, k, so, Store(a, dst, Select(a, src)))
	}
}

func (s *Session) zeroStruct(st *State, t types.Type, dst Term) {
	switch u := t.Underlying().(type) {
	case *types.Struct:
		if isOpaque(t) {
			return
		}
		for i := 0; i < u.NumFields(); i++ {
			ft := u.Field(i).Type()
			if isStructLike(ft) {
				s.zeroStruct(st, ft, s.subRef(st, t, i, dst))
				continue
			}
			k, so := fieldKey(t, i)
			a := s.H(st, k, so)
			s.setH(st, k, so, Store(a, dst, zeroTerm(sortOf(ft))))
		}
	case *types.Array:
		k, so := elemKey(u.Elem())
		a := s.H(st, k, so)
		s.setH(st, k, so, Store(a, dst, ConstArr(elemSortOf(so), zeroTerm(sortOf(u.Elem())))))
	}
}

// isOpaque: struct types from outside the module are abstract objects.
func isOpaque(t types.Type) bool {
	n, ok := t.(*types.Named)
	if !ok {
		return false
	}
	if n.Obj().Pkg() == nil {
		return true
	}
	return !strings.HasPrefix(n.Obj().Pkg().Path(), modPath)
}

// load reads through a pointer value whose pointee has type t.
func (s *Session) load(st *State, ptr Value, t types.Type, pos token.Pos, name string) Value {
	switch p := ptr.(type) {
	case *CellPtr:
		v, ok := p.Fr.cells[p.A]
		if !ok {
			fatalf("%s: load from uninitialised cell %s", s.name, p.A.Name())
		}
		return v
	case *Loc:
		s.rgLoad(st, p)
		v := s.loadLoc(st, p)
		st.assume(s.wellTyped(st, t, v))
		return v
	case Term:
		s.check(st, "safe.nil", s.obl("safe.nil", name), Ne(p, TZero), pos)
		st.assume(Ne(p, TZero))
		if isStructLike(t) {
			r := s.alloc(st, "copy_"+typeKey(t))
			s.copyStruct(st, t, r, p)
			return r
		}
		k, so := boxKey(t)
		v := Select(s.H(st, k, so), p)
		st.assume(s.wellTyped(st, t, v))
		return v
	}
	fatalf("%s: load through unsupported pointer %T", s.name, ptr)
	return nil
}

func (s *Session) store(st *State, ptr Value, t types.Type, val Value, pos token.Pos, name string) {
	switch p := ptr.(type) {
	case *CellPtr:
		p.Fr.cells[p.A] = s.asTermOrKeep(val, t)
		return
	case *Loc:
		s.rgStore(st, p, s.asTerm(val, t), pos)
		s.storeLoc(st, p, s.asTerm(val, t))
		if strings.HasPrefix(p.Key, "Glob_") {
			s.checkGlobalInvs(st, pos)
		}
		return
	case Term:
		s.check(st, "safe.nil", s.obl("safe.nil", name), Ne(p, TZero), pos)
		st.assume(Ne(p, TZero))
		if isStructLike(t) {
			s.copyStruct(st, t, p, s.asTerm(val, t))
			return
		}
		k, so := boxKey(t)
		a := s.H(st, k, so)
		s.setH(st, k, so, Store(a, p, s.asTerm(val, t)))
		return
	}
	fatalf("%s: store through unsupported pointer %T", s.name, ptr)
}

// funcValues maps a ref term standing for a func value / cell pointer back to the Go-side value.
func (s *Session) asTermOrKeep(v Value, t types.Type) Term {
	return s.asTerm(v, t)
}

var escapeTable = map[string]Value{}

// asTerm converts a Go-side value to an SMT term; Go-side-only values
// (closures, cell pointers) are given an opaque reference and remembered.
func (s *Session) asTerm(v Value, t types.Type) Term {
	switch x := v.(type) {
	case Term:
		return x
	case *Closure:
		key := fmt.Sprintf("clo_%s_%p", sanitize(x.Fn.Name()), x)
		tm := s.D.Const(key, SInt)
		s.D.Axiom("pos:"+key, fmt.Sprintf("(< %s 0)", key))
		escapeTable[key] = x
		return tm
	case *FuncRef:
		key := "fn_" + sanitize(x.Fn.String())
		tm := s.D.Const(key, SInt)
		s.D.Axiom("pos:"+key, fmt.Sprintf("(< %s 0)", key))
		escapeTable[key] = x
		return tm
	case *Loc:
		// address of a scalar heap location escapes: opaque pointer, remembered
		key := fmt.Sprintf("loc_%s_%s", sanitize(x.Key), sanitize(x.Idx[0].S))
		if len(key) > 80 {
			key = key[:80]
		}
		tm := s.D.Const(key, SInt)
		s.D.Axiom("pos:"+key, fmt.Sprintf("(< %s 0)", key))
		escapeTable[tm.S] = x
		return tm
	case *CellPtr:
		key := fmt.Sprintf("cell_%s_%s", sanitize(x.A.Comment), sanitize(x.A.Name()))
		tm := s.D.Const(key, SInt)
		s.D.Axiom("pos:"+key, fmt.Sprintf("(< %s 0)", key))
		escapeTable[tm.S] = x
		return tm
	case Unit:
		return TZero
	}
	fatalf("%s: cannot convert %T to a term", s.name, v)
	return Term{}
}

func (s *Session) obl(kind, detail string) string {
	base := kind
	if detail != "" {
		base += "(" + detail + ")"
	}
	return s.name + ":" + base
}

// ---------------------------------------------------------------- constants

func (s *Session) constVal(c *ssa.Const) Value {
	t := c.Type()
	if c.Value == nil {
		// zero value / nil
		if isStructLike(t) {
			fatalf("%s: zero constant of struct type %s", s.name, t)
		}
		return zeroTerm(sortOf(t))
	}
	switch c.Value.Kind() {
	case constant.Bool:
		return BoolLit(constant.BoolVal(c.Value))
	case constant.String:
		return s.strLit(constant.StringVal(c.Value))
	case constant.Int:
		return BigLit(c.Value.ExactString())
	case constant.Float:
		// floats are uninterpreted: one constant per literal
		name := "flt_" + sanitize(c.Value.ExactString())
		return s.D.Const(name, SInt)
	}
	fatalf("%s: unsupported constant %v", s.name, c)
	return nil
}

// ---------------------------------------------------------------- loop analysis

func (s *Session) analyzeLoops() {
	fn := s.fn
	s.loops = map[*ssa.BasicBlock]*loopInfo{}
	// back edges: b -> h with h dominating b
	for _, b := range fn.Blocks {
		for _, h := range b.Succs {
			if h.Dominates(b) {
				li := s.loops[h]
				if li == nil {
					li = &loopInfo{head: h, blocks: map[*ssa.BasicBlock]bool{h: true}, keys: map[string]Sort{}}
					s.loops[h] = li
				}
				// natural loop: nodes reaching b without passing h
				var stack []*ssa.BasicBlock
				if !li.blocks[b] {
					li.blocks[b] = true
					stack = append(stack, b)
				}
				for len(stack) > 0 {
					x := stack[len(stack)-1]
					stack = stack[:len(stack)-1]
					for _, p := range x.Preds {
						if !li.blocks[p] {
							li.blocks[p] = true
							stack = append(stack, p)
						}
					}
				}
			}
		}
	}
	var heads []*ssa.BasicBlock
	for h := range s.loops {
		heads = append(heads, h)
	}
	sort.Slice(heads, func(i, j int) bool { return heads[i].Index < heads[j].Index })
	// source loops in pre-order, for the text cross-check
	var srcLoops []string
	if syn := fn.Syntax(); syn != nil {
		var body ast.Node = syn
		ast.Inspect(body, func(n ast.Node) bool {
			switch x := n.(type) {
			case *ast.FuncLit:
				if n != syn {
					return false
				}
			case *ast.RangeStmt:
				srcLoops = append(srcLoops, "range "+s.P.srcOf(x.X))
			case *ast.ForStmt:
				if x.Cond != nil {
					srcLoops = append(srcLoops, s.P.srcOf(x.Cond))
				} else {
					srcLoops = append(srcLoops, "for")
				}
			}
			return true
		})
	}
	for i, h := range heads {
		li := s.loops[h]
		li.ord = i + 1
		if len(srcLoops) == len(heads) {
			li.text = srcLoops[i]
		}
		// modified cells and heap keys
		cellSet := map[*ssa.Alloc]bool{}
		for b := range li.blocks {
			for _, in := range b.Instrs {
				s.modOfInstr(in, li, cellSet, 0)
			}
		}
		for a := range cellSet {
			li.cells = append(li.cells, a)
		}
		sort.Slice(li.cells, func(i, j int) bool { return li.cells[i].Pos() < li.cells[j].Pos() || (li.cells[i].Pos() == li.cells[j].Pos() && li.cells[i].Name() < li.cells[j].Name()) })
		// range index cell: the Alloc named rangeindex stored in the head block
		for _, in := range h.Instrs {
			if stx, ok := in.(*ssa.Store); ok {
				if a, ok := stx.Addr.(*ssa.Alloc); ok && a.Comment == "rangeindex" {
					li.rangeIdx = a
				}
			}
			if nx, ok := in.(*ssa.Next); ok {
				if r, ok := nx.Iter.(*ssa.Range); ok {
					li.iters = append(li.iters, r)
				}
			}
		}
		if li.rangeIdx == nil {
			li.idxCell = indexLoopCounter(h, li.blocks)
		}
	}
	if s.con != nil {
		// A loop clause names its loop by ordinal and by header text. Binding: the loop with that ordinal
		// if its text agrees; else the unique loop with that text (loops were inserted or removed before
		// it); else the ordinal (the header was rewritten): the invariants then stand or fall on their own.
		claimed := map[*loopInfo]bool{}
		byOrd := func(n int) *loopInfo {
			for _, h := range heads {
				if s.loops[h].ord == n {
					return s.loops[h]
				}
			}
			return nil
		}
		bound := map[*LoopSpec]*loopInfo{}
		for _, ls := range s.con.Loops {
			if li := byOrd(ls.N); li != nil && (ls.Text == "" || li.text == "" || ls.Text == li.text) {
				bound[ls] = li
				claimed[li] = true
			}
		}
		for _, ls := range s.con.Loops {
			if bound[ls] != nil {
				continue
			}
			var cands []*loopInfo
			for _, h := range heads {
				if li := s.loops[h]; !claimed[li] && li.text == ls.Text {
					cands = append(cands, li)
				}
			}
			if len(cands) == 1 {
				bound[ls] = cands[0]
				claimed[cands[0]] = true
				s.note(fmt.Sprintf("loop clause %d %q bound by header text to loop %d", ls.N, ls.Text, cands[0].ord))
			}
		}
		for _, ls := range s.con.Loops {
			li := bound[ls]
			if li == nil {
				li = byOrd(ls.N)
				if li == nil || claimed[li] {
					fatalf("%s:%d: contract names loop %d %q but %s has %d loops and none matches", s.con.File, ls.Line, ls.N, ls.Text, s.name, len(heads))
				}
				claimed[li] = true
				s.note(fmt.Sprintf("loop clause %d: header is %q in the source, the contract says %q (bound by ordinal)", ls.N, li.text, ls.Text))
			}
			li.spec = ls
			ls.used = true
		}
	}
}

// modOfInstr records what instruction in may modify (conservatively).
func (s *Session) modOfInstr(in ssa.Instruction, li *loopInfo, cells map[*ssa.Alloc]bool, depth int) {
	addStructKeys := func(t types.Type) {
		var rec func(t types.Type)
		rec = func(t types.Type) {
			switch u := t.Underlying().(type) {
			case *types.Struct:
				if isOpaque(t) {
					li.keys["F_"+typeKey(t)+"_$state"] = ArrSort(SInt, SInt)
					return
				}
				for i := 0; i < u.NumFields(); i++ {
					if isStructLike(u.Field(i).Type()) {
						rec(u.Field(i).Type())
					} else {
						k, so := fieldKey(t, i)
						li.keys[k] = so
					}
				}
			case *types.Array:
				k, so := elemKey(u.Elem())
				li.keys[k] = so
			}
		}
		rec(t)
	}
	switch x := in.(type) {
	case *ssa.Store:
		vt := x.Val.Type()
		switch a := x.Addr.(type) {
		case *ssa.Alloc:
			if isStructLike(vt) {
				addStructKeys(vt)
			} else if a.Heap {
				k, so := boxKey(vt)
				li.keys[k] = so
			} else {
				cells[a] = true
			}
		case *ssa.FieldAddr:
			if isStructLike(vt) {
				addStructKeys(vt)
			} else {
				st := a.X.Type().Underlying().(*types.Pointer).Elem()
				k, so := fieldKey(st, a.Field)
				li.keys[k] = so
			}
		case *ssa.IndexAddr:
			if isStructLike(vt) {
				addStructKeys(vt)
			}
			k, so := elemKey(vt)
			li.keys[k] = so
		case *ssa.Global:
			li.keys[globalKey(a)] = ArrSort(SInt, sortOf(vt))
		default:
			if isStructLike(vt) {
				addStructKeys(vt)
			} else {
				k, so := boxKey(vt)
				li.keys[k] = so
			}
		}
	case *ssa.MapUpdate:
		mt := x.Map.Type().Underlying().(*types.Map)
		d, v, ds, vs := mapKeys(mt)
		li.keys[d] = ds
		li.keys[v] = vs
	case *ssa.Alloc, *ssa.MakeMap, *ssa.MakeSlice, *ssa.MakeChan, *ssa.MakeClosure:
		li.keys["$brk"] = SInt
		if a, ok := x.(*ssa.Alloc); ok {
			t := a.Type().Underlying().(*types.Pointer).Elem()
			if isStructLike(t) {
				addStructKeys(t)
			} else if a.Heap {
				k, so := boxKey(t)
				li.keys[k] = so
			} else {
				cells[a] = true
			}
		}
		if m, ok := x.(*ssa.MakeMap); ok {
			d, v, ds, vs := mapKeys(m.Type().Underlying().(*types.Map))
			li.keys[d], li.keys[v] = ds, vs
		}
		if m, ok := x.(*ssa.MakeSlice); ok {
			k, so := elemKey(m.Type().Underlying().(*types.Slice).Elem())
			li.keys[k] = so
		}
	case *ssa.UnOp:
		if x.Op == token.MUL && isStructLike(x.Type()) {
			li.keys["$brk"] = SInt
			addStructKeys(x.Type())
		}
	case *ssa.Slice:
		li.keys["$brk"] = SInt
	case *ssa.Call:
		s.modOfCall(&x.Call, li, cells, depth)
	case *ssa.Go:
		// the spawned function runs concurrently: its effects reach this thread only
		// as interference on shared fields (race-freedom of everything else is assumed)
		li.keys["$brk"] = SInt
		if callee := x.Call.StaticCallee(); callee != nil {
			s.callsiteGhostKeys("go "+relSuffix(s.P.fnName(callee)), li)
		}
	case *ssa.Defer:
		s.modOfCall(&x.Call, li, cells, depth)
	case *ssa.Next:
		// iterator state is handled separately
	}
}

func (s *Session) modOfCall(c *ssa.CallCommon, li *loopInfo, cells map[*ssa.Alloc]bool, depth int) {
	li.keys["$brk"] = SInt
	if b, ok := c.Value.(*ssa.Builtin); ok {
		switch b.Name() {
		case "append", "copy":
			if len(c.Args) > 0 {
				if sl, ok := c.Args[0].Type().Underlying().(*types.Slice); ok {
					k, so := elemKey(sl.Elem())
					li.keys[k] = so
				}
			}
		case "delete":
			d, v, ds, vs := mapKeys(c.Args[0].Type().Underlying().(*types.Map))
			li.keys[d], li.keys[v] = ds, vs
		case "close":
			li.keys["G_$closed"] = ArrSort(SInt, SBool)
		}
		return
	}
	if sc := c.StaticCallee(); sc != nil && sc.Pkg != nil && sc.Pkg.Pkg.Path() == "sync" && sc.Name() == "Do" && len(c.Args) == 2 {
		li.keys["G_onceDone"] = ArrSort(SInt, SBool)
		if mc, ok := c.Args[1].(*ssa.MakeClosure); ok {
			cf := mc.Fn.(*ssa.Function)
			cpkg, crel := s.P.qualName(cf)
			if ccon := s.P.contractOf(cpkg, crel); ccon != nil {
				if ccon.ModAll || !ccon.HasMod {
					li.modAll = true
				} else {
					for _, k := range s.contractModKeys(ccon, cf, &ssa.CallCommon{Value: mc}) {
						li.keys[k] = s.hsort[k]
					}
				}
				return
			}
			for _, b := range cf.Blocks {
				for _, in := range b.Instrs {
					s.modOfInstr(in, li, map[*ssa.Alloc]bool{}, depth+1)
				}
			}
		} else {
			li.modAll = true
		}
		return
	}
	var con *Contract
	var callee *ssa.Function
	if c.IsInvoke() {
		con = s.ifaceContract(c)
		s.callsiteGhostKeys(ifaceMethodName(c), li)
	} else if callee = c.StaticCallee(); callee != nil {
		pkg, rel := s.P.qualName(callee)
		con = s.P.contractOf(pkg, rel)
		if callee.Pkg != nil && strings.HasPrefix(pkg, modPath) {
			s.callsiteGhostKeys(s.P.fnName(callee), li)
		} else {
			s.callsiteGhostKeys(pkg+"."+rel, li)
		}
	}
	if con != nil && con.Flags["inline"] && callee != nil && callee.Blocks != nil {
		con = nil // inlined at the call: what the loop may modify is read off the body below
	}
	if con != nil {
		if con.ModAll || con.Flags["havocall"] {
			li.modAll = true
			return
		}
		for _, k := range s.contractModKeys(con, callee, c) {
			if k == "*" {
				li.modAll = true
				continue
			}
			li.keys[k] = s.hsort[k]
		}
		// ghost updates at this call site
		return
	}
	if callee != nil && callee.Blocks != nil && callee.Pkg != nil && strings.HasPrefix(callee.Pkg.Pkg.Path(), modPath) && depth < 4 {
		// an in-module callee without contract (inlinable or not, e.g. a helper with a loop): what it may
		// modify is read off its body (stores to its own cells are irrelevant to the caller)
		for _, b := range callee.Blocks {
			for _, in := range b.Instrs {
				s.modOfInstr(in, li, map[*ssa.Alloc]bool{}, depth+1)
			}
		}
		return
	}
	if callee != nil && callee.Blocks == nil {
		// external function without libspec entry: reported as a tool error at execution time
		return
	}
	li.modAll = true
}

// callsiteGhostKeys: ghost entries assigned by the caller's callsite clause for this callee.
func (s *Session) callsiteGhostKeys(name string, li *loopInfo) {
	if s.con == nil {
		return
	}
	for _, cs := range s.con.Callsites {
		if !(cs.Callee == name || strings.HasSuffix(name, "."+cs.Callee) || strings.HasSuffix(name, ")."+cs.Callee) || strings.HasSuffix(name, "/"+cs.Callee)) {
			continue
		}
		for _, as := range append(append([]Assign{}, cs.Ghost...), cs.GhostPre...) {
			var id *EIdent
			switch l := as.LHS.(type) {
			case *EIdent:
				id = l
			case *EIndex:
				id, _ = l.X.(*EIdent)
			}
			if id == nil {
				continue
			}
			for gpath, sp := range s.P.specs {
				for _, g := range sp.Ghosts {
					if g.Name == id.Name {
						gp := s.pkgTypes(gpath)
						if gp == nil {
							gp = s.fn.Pkg.Pkg
						}
						if gt := s.P.parseGhostType(gp, g.Type); gt != nil {
							li.keys[ghostKey(g.Name)] = gt.sort()
						} else {
							li.keys[ghostKey(g.Name)] = sortOf(s.P.resolveType(gp, g.Type))
						}
					}
				}
			}
		}
	}
}

func globalKey(g *ssa.Global) string {
	return "Glob_" + sanitize(shortPkgOr(g.Pkg.Pkg.Path())) + "_" + g.Name()
}
func shortPkgOr(path string) string {
	if strings.HasPrefix(path, modPath) {
		return shortPkg(path)
	}
	return path
}

func (s *Session) canInline(fn *ssa.Function) bool {
	if fn.Blocks == nil || fn.Pkg == nil {
		return false
	}
	if pkg, rel := s.P.qualName(fn); s.P.contractOf(pkg, rel) != nil && !s.P.contractOf(pkg, rel).Flags["inline"] {
		return false
	}
	n := 0
	for _, b := range fn.Blocks {
		for _, succ := range b.Succs {
			if succ.Dominates(b) {
				return false // loop
			}
		}
		for _, in := range b.Instrs {
			if _, ok := in.(*ssa.DebugRef); ok {
				continue
			}
			n++
			if c, ok := in.(ssa.CallInstruction); ok {
				if c.Common().StaticCallee() == fn {
					return false
				}
			}
		}
	}
	if fn.Parent() != nil {
		return true // closures invoked in place (defer func(){...}())
	}
	return n <= 90 && strings.HasPrefix(fn.Pkg.Pkg.Path(), modPath)
}

// indexLoopCounter recognises the canonical index loop `for i := e; i < n; i++ { ... }`: the head
// compares a local counter with `<`, and the only store to that counter inside the loop adds 1 to it.
// Such a loop is the hand-written form of `for i := range xs`: contracts may speak about it with
// `rangeindex` (= i - 1, the index of the last completed iteration), and `0 <= i` is a checked
// automatic invariant when the counter starts non-negative.
func indexLoopCounter(head *ssa.BasicBlock, blocks map[*ssa.BasicBlock]bool) *ssa.Alloc {
	var iff *ssa.If
	if n := len(head.Instrs); n > 0 {
		iff, _ = head.Instrs[n-1].(*ssa.If)
	}
	if iff == nil {
		return nil
	}
	cmp, ok := iff.Cond.(*ssa.BinOp)
	if !ok || cmp.Op != token.LSS {
		return nil
	}
	ld, ok := cmp.X.(*ssa.UnOp)
	if !ok || ld.Op != token.MUL {
		return nil
	}
	a, ok := ld.X.(*ssa.Alloc)
	if !ok {
		return nil
	}
	if bt, ok := a.Type().Underlying().(*types.Pointer).Elem().Underlying().(*types.Basic); !ok || bt.Kind() != types.Int {
		return nil
	}
	incs := 0
	for b := range blocks {
		for _, in := range b.Instrs {
			st, ok := in.(*ssa.Store)
			if !ok || st.Addr != a {
				continue
			}
			add, ok := st.Val.(*ssa.BinOp)
			if !ok || add.Op != token.ADD {
				return nil
			}
			l, ok1 := add.X.(*ssa.UnOp)
			c, ok2 := add.Y.(*ssa.Const)
			if !ok1 || !ok2 || l.X != a || c.Value == nil || c.Value.ExactString() != "1" {
				return nil
			}
			incs++
		}
	}
	if incs != 1 {
		return nil
	}
	return a
}
