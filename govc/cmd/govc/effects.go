package main

// Static effect obligations:
//   effect no <E> in loop <N> [except <callee>,...]
//   effect no <E> before <callee>
//   effect no lock-held at <callee>
//   effect no <E> except <callee>,...   (function-wide)
//   effect no <E> while lock-held
//   effect no lock-held at return
// An effect (awaits-task, may-block) is declared on contracts / libspec entries
// and inherited through inlined callees. Channel operations have may-block.

import (
	"sort"
	"fmt"
	"strconv"
	"strings"

	"golang.org/x/tools/go/ssa"
)

func (s *Session) calleeName(c *ssa.CallCommon) string {
	if c.IsInvoke() {
		return ifaceMethodName(c)
	}
	if callee := c.StaticCallee(); callee != nil {
		if callee.Pkg != nil && strings.HasPrefix(callee.Pkg.Pkg.Path(), modPath) {
			return s.P.fnName(callee)
		}
		pkg, rel := s.P.qualName(callee)
		return pkg + "." + rel
	}
	return "funcvalue"
}

func (s *Session) effectsOfCall(c *ssa.CallCommon, depth int) map[string]bool {
	out := map[string]bool{}
	if _, ok := c.Value.(*ssa.Builtin); ok {
		return out
	}
	var con *Contract
	var callee *ssa.Function
	if c.IsInvoke() {
		con = s.ifaceContract(c)
	} else if callee = c.StaticCallee(); callee != nil {
		pkg, rel := s.P.qualName(callee)
		con = s.P.contractOf(pkg, rel)
	}
	if con != nil {
		for _, e := range con.Effects {
			if !strings.HasPrefix(e, "owns ") && !strings.HasPrefix(e, "no ") && !strings.HasPrefix(e, "lock-held at ") && e != "unlock-only-held" {
				out[e] = true
			}
		}
		if !(callee != nil && callee.Blocks != nil && con.Flags["inline"]) {
			return out
		}
	}
	if callee != nil && callee.Blocks != nil && depth < 4 {
		for e := range s.effectsOfFn(callee, depth+1) {
			out[e] = true
		}
	}
	return out
}

func (s *Session) effectsOfFn(fn *ssa.Function, depth int) map[string]bool {
	out := map[string]bool{}
	for _, b := range fn.Blocks {
		for _, in := range b.Instrs {
			for e := range s.effectsOfInstr(in, depth) {
				out[e] = true
			}
		}
	}
	return out
}

func (s *Session) effectsOfInstr(in ssa.Instruction, depth int) map[string]bool {
	switch x := in.(type) {
	case *ssa.Call:
		return s.effectsOfCall(&x.Call, depth)
	case *ssa.Defer:
		return s.effectsOfCall(&x.Call, depth)
	case *ssa.Send, *ssa.Select:
		return map[string]bool{"may-block": true}
	case *ssa.UnOp:
		if x.Op.String() == "<-" {
			return map[string]bool{"may-block": true}
		}
	}
	return nil
}

func (s *Session) checkEffects() {
	if s.con == nil {
		return
	}
	for _, e := range s.con.Effects {
		if strings.HasPrefix(e, "lock-held at ") {
			// positive form: every call of the target happens with a mutex of this function held
			target := strings.TrimSpace(strings.TrimPrefix(e, "lock-held at "))
			offenders := s.locksNotHeldAt(target, e)
			name := s.obl("effect("+e+")", "")
			vc := &VC{Obl: name, Kind: "effect", Fn: s.name, Goal: e}
			if len(offenders) == 0 {
				vc.Status, vc.Solver = "unsat", "trivial"
			} else {
				vc.SMT = "; __DECLS__\n(assert true)"
				vc.Goal = fmt.Sprintf("%s — violated by: %s", e, strings.Join(offenders, "; "))
			}
			s.vcs = append(s.vcs, vc)
			continue
		}
		if e == "unlock-only-held" {
			// every Unlock / RUnlock of this function (deferred ones at the point of the defer) releases a
			// mutex the function itself has locked on EVERY path to that point: unlocking a mutex that is not
			// locked is a fatal error of the Go runtime ("sync: unlock of unlocked mutex"), not a panic
			offenders := s.unlocksOfUnheld()
			vc := &VC{Obl: s.obl("effect("+e+")", ""), Kind: "effect", Fn: s.name, Goal: e}
			if len(offenders) == 0 {
				vc.Status, vc.Solver = "unsat", "trivial"
			} else {
				vc.SMT = "; __DECLS__\n(assert true)"
				vc.Goal = fmt.Sprintf("%s — violated by: %s", e, strings.Join(offenders, "; "))
			}
			s.vcs = append(s.vcs, vc)
			continue
		}
		if !strings.HasPrefix(e, "no ") {
			continue
		}
		f := strings.Fields(e)
		// no E in loop N [except a,b]   |   no E before C
		if len(f) < 4 {
			fatalf("%s: bad effect clause %q", s.name, e)
		}
		eff := f[1]
		var offenders []string
		switch f[2] {
		case "in":
			n, err := strconv.Atoi(f[4])
			if err != nil || f[3] != "loop" {
				fatalf("%s: bad effect clause %q", s.name, e)
			}
			except := map[string]bool{}
			if len(f) >= 7 && f[5] == "except" {
				for _, x := range strings.Split(strings.Join(f[6:], ""), ",") {
					except[x] = true
				}
			}
			var li *loopInfo
			for _, l := range s.loops {
				if l.ord == n {
					li = l
				}
			}
			if li == nil {
				fatalf("%s: effect clause names loop %d", s.name, n)
			}
			for b := range li.blocks {
				for _, in := range b.Instrs {
					if effs := s.effectsOfInstr(in, 0); effs[eff] {
						name := "channel operation"
						if c, ok := in.(ssa.CallInstruction); ok {
							name = s.calleeName(c.Common())
						}
						if except[relSuffix(name)] {
							continue
						}
						offenders = append(offenders, name+" at "+s.P.pos(in.Pos()))
					}
				}
			}
		case "before":
			target := f[3]
			// blocks from which a call of target is reachable, and instructions preceding it
			reach := map[*ssa.BasicBlock]bool{}
			var targets []ssa.Instruction
			for _, b := range s.fn.Blocks {
				for _, in := range b.Instrs {
					if c, ok := in.(ssa.CallInstruction); ok && relSuffix(s.calleeName(c.Common())) == target {
						targets = append(targets, in)
					}
				}
			}
			if len(targets) == 0 {
				fatalf("%s: effect clause %q: no call of %s", s.name, e, target)
			}
			var mark func(b *ssa.BasicBlock)
			mark = func(b *ssa.BasicBlock) {
				for _, p := range b.Preds {
					if !reach[p] {
						reach[p] = true
						mark(p)
					}
				}
			}
			for _, t := range targets {
				mark(t.Block())
			}
			check := func(in ssa.Instruction) {
				if _, isDefer := in.(*ssa.Defer); isDefer {
					return // runs at function exit, after the target
				}
				if effs := s.effectsOfInstr(in, 0); effs[eff] {
					name := "channel operation"
					if c, ok := in.(ssa.CallInstruction); ok {
						name = s.calleeName(c.Common())
					}
					offenders = append(offenders, name+" at "+s.P.pos(in.Pos()))
				}
			}
			for b := range reach {
				for _, in := range b.Instrs {
					check(in)
				}
			}
			for _, t := range targets {
				for _, in := range t.Block().Instrs {
					if in == t {
						break
					}
					check(in)
				}
			}
		case "except", "anywhere":
			// no E except a,b  |  no E anywhere : function-wide
			except := map[string]bool{}
			if f[2] == "except" {
				for _, x := range strings.Split(strings.Join(f[3:], ""), ",") {
					except[x] = true
				}
			}
			for _, b := range s.fn.Blocks {
				for _, in := range b.Instrs {
					if effs := s.effectsOfInstr(in, 0); effs[eff] {
						name := "channel operation"
						if c, ok := in.(ssa.CallInstruction); ok {
							name = s.calleeName(c.Common())
						}
						if except[relSuffix(name)] {
							continue
						}
						offenders = append(offenders, name+" at "+s.P.pos(in.Pos()))
					}
				}
			}
		case "while":
			// no E while lock-held: nothing with effect E (in this function or, through contracts / bodies,
			// in what it calls) happens while a mutex locked by this function itself is held. Taking a
			// second lock while one is held counts (Lock has the effect may-block): it is how a function
			// dead-locks on its own mutex or nests locks in an order nobody checks.
			if len(f) < 4 || f[3] != "lock-held" {
				fatalf("%s: bad effect clause %q", s.name, e)
			}
			offenders = s.effectsWhileLocked(eff)
		case "at":
			// no lock-held at C: on no path is a sync.(RW)Mutex locked by this function's own
			// instructions still held when C is called (a deferred Unlock releases at exit only)
			if eff != "lock-held" {
				fatalf("%s: bad effect clause %q", s.name, e)
			}
			if f[3] == "return" {
				offenders = s.locksHeldAtReturn()
			} else {
				offenders = s.locksHeldAt(f[3], e)
			}
		default:
			fatalf("%s: bad effect clause %q", s.name, e)
		}
		name := s.obl("effect("+strings.TrimPrefix(e, "no ")+")", "")
		vc := &VC{Obl: name, Kind: "effect", Fn: s.name, Goal: e}
		if len(offenders) == 0 {
			vc.Status, vc.Solver = "unsat", "trivial"
		} else {
			vc.SMT = "; __DECLS__\n(assert true)"
			vc.Goal = fmt.Sprintf("%s — violated by: %s", e, strings.Join(offenders, "; "))
		}
		s.vcs = append(s.vcs, vc)
	}
}

// lockKey names the mutex a Lock/Unlock call operates on, structurally (field path from a
// parameter, free variable or global), so that the Lock and the Unlock of one mutex agree.
func lockKey(v ssa.Value) string {
	switch x := v.(type) {
	case *ssa.FieldAddr:
		return lockKey(x.X) + "." + strconv.Itoa(x.Field)
	case *ssa.Field:
		return lockKey(x.X) + "." + strconv.Itoa(x.Field)
	case *ssa.UnOp:
		return "*" + lockKey(x.X)
	case *ssa.Parameter:
		return "param:" + x.Name()
	case *ssa.FreeVar:
		return "free:" + x.Name()
	case *ssa.Global:
		return "global:" + x.String()
	case *ssa.Alloc:
		return "local:" + x.Comment
	}
	return "value:" + v.Name()
}

func lockOp(c *ssa.CallCommon) (key string, acquire, release bool) {
	callee := c.StaticCallee()
	if callee == nil || callee.Pkg == nil || callee.Pkg.Pkg.Path() != "sync" || len(c.Args) == 0 {
		return
	}
	recv := callee.Signature.Recv()
	if recv == nil {
		return
	}
	rt := recv.Type().String()
	if !strings.HasSuffix(rt, "sync.Mutex") && !strings.HasSuffix(rt, "sync.RWMutex") {
		return
	}
	switch callee.Name() {
	case "Lock", "RLock":
		return lockKey(c.Args[0]), true, false
	case "Unlock", "RUnlock":
		return lockKey(c.Args[0]), false, true
	}
	return
}

func (s *Session) locksHeldAt(target, clause string) []string {
	in := map[*ssa.BasicBlock]map[string]string{}
	var offenders []string
	seen := map[string]bool{}
	found := false
	transfer := func(b *ssa.BasicBlock, held map[string]string, report bool) map[string]string {
		out := map[string]string{}
		for k, v := range held {
			out[k] = v
		}
		for _, i := range b.Instrs {
			c, ok := i.(*ssa.Call)
			if !ok {
				continue
			}
			if k, acq, rel := lockOp(&c.Call); acq {
				out[k] = s.P.pos(i.Pos())
			} else if rel {
				delete(out, k)
			}
			if relSuffix(s.calleeName(&c.Call)) == target {
				found = true
				if report {
					for k, where := range out {
						m := fmt.Sprintf("mutex %s locked at %s is held across the call of %s at %s", k, where, target, s.P.pos(i.Pos()))
						if !seen[m] {
							seen[m] = true
							offenders = append(offenders, m)
						}
					}
				}
			}
		}
		return out
	}
	for changed := true; changed; {
		changed = false
		for _, b := range s.fn.Blocks {
			out := transfer(b, in[b], false)
			for _, succ := range b.Succs {
				if in[succ] == nil {
					in[succ] = map[string]string{}
				}
				for k, v := range out {
					if _, ok := in[succ][k]; !ok {
						in[succ][k] = v
						changed = true
					}
				}
			}
		}
	}
	for _, b := range s.fn.Blocks {
		transfer(b, in[b], true)
	}
	if !found {
		fatalf("%s: effect clause %q: no call of %s", s.name, clause, target)
	}
	return offenders
}

// locksNotHeldAt: calls of target (a callee name, or "funcvalue" for a dynamic call) that can be
// reached with NO mutex of this function held — a forward MUST-analysis (intersection at joins) over
// the function's own Lock/Unlock calls; a deferred Unlock releases at exit only.
func (s *Session) locksNotHeldAt(target, clause string) []string {
	type set map[string]bool
	in := map[*ssa.BasicBlock]set{}
	seenBlock := map[*ssa.BasicBlock]bool{}
	var offenders []string
	found := false
	transfer := func(b *ssa.BasicBlock, held set, report bool) set {
		out := set{}
		for k := range held {
			out[k] = true
		}
		for _, i := range b.Instrs {
			c, ok := i.(*ssa.Call)
			if !ok {
				continue
			}
			if k, acq, rel := lockOp(&c.Call); acq {
				out[k] = true
			} else if rel {
				delete(out, k)
			}
			if _, isBuiltin := c.Call.Value.(*ssa.Builtin); isBuiltin {
				continue
			}
			if relSuffix(s.calleeName(&c.Call)) == target {
				found = true
				if report && len(out) == 0 {
					offenders = append(offenders, fmt.Sprintf("%s is called at %s with no mutex held", target, s.P.pos(i.Pos())))
				}
			}
		}
		return out
	}
	if len(s.fn.Blocks) == 0 {
		return nil
	}
	in[s.fn.Blocks[0]] = set{}
	seenBlock[s.fn.Blocks[0]] = true
	for changed := true; changed; {
		changed = false
		for _, b := range s.fn.Blocks {
			if !seenBlock[b] {
				continue
			}
			out := transfer(b, in[b], false)
			for _, succ := range b.Succs {
				if !seenBlock[succ] {
					seenBlock[succ] = true
					cp := set{}
					for k := range out {
						cp[k] = true
					}
					in[succ] = cp
					changed = true
					continue
				}
				for k := range in[succ] {
					if !out[k] {
						delete(in[succ], k)
						changed = true
					}
				}
			}
		}
	}
	for _, b := range s.fn.Blocks {
		if seenBlock[b] {
			transfer(b, in[b], true)
		}
	}
	if !found {
		fatalf("%s: effect clause %q: no call of %s", s.name, clause, target)
	}
	return offenders
}

// heldLocksFlow: forward MAY-analysis of the mutexes this function has locked itself; visit is called
// for every instruction with the set held just before it.
func (s *Session) heldLocksFlow(visit func(in ssa.Instruction, held map[string]string)) {
	in := map[*ssa.BasicBlock]map[string]string{}
	transfer := func(b *ssa.BasicBlock, held map[string]string, report bool) map[string]string {
		out := map[string]string{}
		for k, v := range held {
			out[k] = v
		}
		for _, i := range b.Instrs {
			if report {
				visit(i, out)
			}
			c, ok := i.(*ssa.Call)
			if !ok {
				continue
			}
			if k, acq, rel := lockOp(&c.Call); acq {
				out[k] = s.P.pos(i.Pos())
			} else if rel {
				delete(out, k)
			}
		}
		return out
	}
	for changed := true; changed; {
		changed = false
		for _, b := range s.fn.Blocks {
			out := transfer(b, in[b], false)
			for _, succ := range b.Succs {
				if in[succ] == nil {
					in[succ] = map[string]string{}
				}
				for k, v := range out {
					if _, ok := in[succ][k]; !ok {
						in[succ][k] = v
						changed = true
					}
				}
			}
		}
	}
	for _, b := range s.fn.Blocks {
		transfer(b, in[b], true)
	}
}

func (s *Session) effectsWhileLocked(eff string) []string {
	var offenders []string
	seen := map[string]bool{}
	s.heldLocksFlow(func(i ssa.Instruction, held map[string]string) {
		if len(held) == 0 {
			return
		}
		if _, isDefer := i.(*ssa.Defer); isDefer {
			return // runs at exit
		}
		if c, ok := i.(*ssa.Call); ok {
			if _, _, rel := lockOp(&c.Call); rel {
				return // releasing is fine
			}
		}
		if effs := s.effectsOfInstr(i, 0); effs[eff] {
			name := "channel operation"
			if c, ok := i.(ssa.CallInstruction); ok {
				name = s.calleeName(c.Common())
			}
			var ks []string
			for k, where := range held {
				ks = append(ks, k+" (locked at "+where+")")
			}
			sort.Strings(ks)
			m := fmt.Sprintf("%s at %s while holding %s", name, s.P.pos(i.Pos()), strings.Join(ks, ", "))
			if !seen[m] {
				seen[m] = true
				offenders = append(offenders, m)
			}
		}
	})
	return offenders
}

// locksHeldAtReturn: a mutex locked by this function is still held when it returns (no matching
// Unlock, not even a deferred one, on some path).
func (s *Session) locksHeldAtReturn() []string {
	deferred := map[string]bool{}
	for _, b := range s.fn.Blocks {
		for _, i := range b.Instrs {
			if d, ok := i.(*ssa.Defer); ok {
				if k, _, rel := lockOp(&d.Call); rel {
					deferred[k] = true
				}
			}
		}
	}
	var offenders []string
	seen := map[string]bool{}
	s.heldLocksFlow(func(i ssa.Instruction, held map[string]string) {
		if _, ok := i.(*ssa.Return); !ok {
			return
		}
		for k, where := range held {
			if deferred[k] {
				continue
			}
			m := fmt.Sprintf("mutex %s locked at %s is still held at the return at %s", k, where, s.P.pos(i.Pos()))
			if !seen[m] {
				seen[m] = true
				offenders = append(offenders, m)
			}
		}
	})
	return offenders
}

// unlocksOfUnheld: forward MUST-analysis of the mutexes this function has locked itself; reports every
// release (direct, or deferred: checked where the defer statement is) of a mutex not in the set.
func (s *Session) unlocksOfUnheld() []string {
	type set map[string]bool
	in := map[*ssa.BasicBlock]set{}
	seenBlock := map[*ssa.BasicBlock]bool{}
	var offenders []string
	transfer := func(b *ssa.BasicBlock, held set, report bool) set {
		out := set{}
		for k := range held {
			out[k] = true
		}
		for _, i := range b.Instrs {
			switch c := i.(type) {
			case *ssa.Call:
				if k, acq, rel := lockOp(&c.Call); acq {
					out[k] = true
				} else if rel {
					if report && !out[k] {
						offenders = append(offenders, fmt.Sprintf("mutex %s is unlocked at %s but not locked by this function on every path to it", k, s.P.pos(i.Pos())))
					}
					delete(out, k)
				}
			case *ssa.Defer:
				if k, _, rel := lockOp(&c.Call); rel {
					if report && !out[k] {
						offenders = append(offenders, fmt.Sprintf("deferred unlock of mutex %s at %s: not locked by this function on every path to the defer", k, s.P.pos(i.Pos())))
					}
				}
			}
		}
		return out
	}
	if len(s.fn.Blocks) == 0 {
		return nil
	}
	in[s.fn.Blocks[0]] = set{}
	seenBlock[s.fn.Blocks[0]] = true
	for changed := true; changed; {
		changed = false
		for _, b := range s.fn.Blocks {
			if !seenBlock[b] {
				continue
			}
			out := transfer(b, in[b], false)
			for _, succ := range b.Succs {
				if !seenBlock[succ] {
					seenBlock[succ] = true
					cp := set{}
					for k := range out {
						cp[k] = true
					}
					in[succ] = cp
					changed = true
					continue
				}
				for k := range in[succ] {
					if !out[k] {
						delete(in[succ], k)
						changed = true
					}
				}
			}
		}
	}
	for _, b := range s.fn.Blocks {
		if seenBlock[b] {
			transfer(b, in[b], true)
		}
	}
	return offenders
}
