package main

// State merging at control-flow joins of the function under verification:
// states arriving at a block with several forward predecessors are parked and
// merged (values become ite-terms over fresh branch flags), which keeps the
// number of paths linear in the number of independent branches.

import (
	"fmt"
	"sort"

	"golang.org/x/tools/go/ssa"
)

type parked struct {
	st   *State
	from *ssa.BasicBlock
}

func (s *Session) computeRPO() {
	s.rpo = map[*ssa.BasicBlock]int{}
	seen := map[*ssa.BasicBlock]bool{}
	var post []*ssa.BasicBlock
	var dfs func(b *ssa.BasicBlock)
	dfs = func(b *ssa.BasicBlock) {
		seen[b] = true
		for _, succ := range b.Succs {
			if succ.Dominates(b) {
				continue // back edge
			}
			if !seen[succ] {
				dfs(succ)
			}
		}
		post = append(post, b)
	}
	if len(s.fn.Blocks) > 0 {
		dfs(s.fn.Blocks[0])
	}
	for i := range post {
		s.rpo[post[len(post)-1-i]] = i
	}
	s.fwdPreds = map[*ssa.BasicBlock]int{}
	for _, b := range s.fn.Blocks {
		for _, succ := range b.Succs {
			if !succ.Dominates(b) {
				s.fwdPreds[succ]++
			}
		}
	}
}

func (s *Session) shouldPark(st *State, b, from *ssa.BasicBlock) bool {
	if !s.mergeOn || st.fr.parent != nil || st.fr.fn != s.fn || b.Parent() != s.fn {
		return false
	}
	if s.resumeBlock == b {
		s.resumeBlock = nil
		return false
	}
	if from != nil && b.Dominates(from) {
		if li := s.loops[b]; li != nil && li.blocks[from] {
			return false // back edge: checked immediately
		}
	}
	if s.fwdPreds[b] < 2 {
		return false
	}
	if len(b.Instrs) > 0 {
		if _, isPhi := b.Instrs[0].(*ssa.Phi); isPhi {
			return false
		}
	}
	return true
}

// drain resumes parked states, lowest block (in reverse post-order) first.
func (s *Session) drain() {
	for len(s.pending) > 0 {
		var pick *ssa.BasicBlock
		for b := range s.pending {
			if pick == nil || s.rpo[b] < s.rpo[pick] {
				pick = b
			}
		}
		arr := s.pending[pick]
		delete(s.pending, pick)
		merged := s.mergeStates(arr)
		for _, m := range merged {
			s.resumeBlock = pick
			s.execFrom(m.st, pick, m.from)
		}
	}
}

func sameDefers(a, b []deferred) bool {
	if len(a) != len(b) {
		return false
	}
	for i := range a {
		if a[i].call != b[i].call {
			return false
		}
	}
	return true
}

func (s *Session) mergeStates(arr []parked) []parked {
	if len(arr) == 1 {
		return arr
	}
	base := arr[0].st
	for _, p := range arr[1:] {
		if !sameDefers(base.fr.defers, p.st.fr.defers) || p.st.fr.parent != nil {
			return arr // cannot merge: resume separately
		}
	}
	n := len(arr)
	// common prefix of the path conditions
	k := 0
	for ; ; k++ {
		ok := true
		for _, p := range arr {
			if k >= len(p.st.pc) || p.st.pc[k] != base.pc[k] {
				ok = false
				break
			}
		}
		if !ok || k >= len(base.pc) {
			break
		}
	}
	m := &State{heap: map[string]Term{}, epoch: base.epoch, seen: map[int]Term{}, counts: map[string]Term{}}
	m.pc = append([]Assump(nil), base.pc[:k]...)
	flags := make([]Term, n)
	for i, p := range arr {
		flags[i] = s.fresh("br", SBool)
		var suffix []Term
		for _, a := range p.st.pc[k:] {
			suffix = append(suffix, a.T)
		}
		m.pc = append(m.pc, Assump{Implies(flags[i], And(suffix...)), ""})
	}
	m.pc = append(m.pc, Assump{Or(flags...), ""})
	pickT := func(vals []Term) Term {
		same := true
		for _, v := range vals[1:] {
			if v != vals[0] {
				same = false
			}
		}
		if same {
			return vals[0]
		}
		out := vals[n-1]
		for i := n - 2; i >= 0; i-- {
			out = Ite(flags[i], vals[i], out)
		}
		// name the merged value to keep later terms small
		nm := s.fresh("mrg", out.Sort)
		m.pc = append(m.pc, Assump{Eq(nm, out), ""})
		return nm
	}
	// heap: every entry that any state knows explicitly, plus epoch differences
	keys := map[string]bool{}
	epochDiffer := false
	for _, p := range arr {
		for key := range p.st.heap {
			keys[key] = true
		}
		if p.st.epoch != base.epoch {
			epochDiffer = true
		}
	}
	if epochDiffer {
		for key := range s.hsort {
			keys[key] = true
		}
	}
	var ks []string
	for key := range keys {
		ks = append(ks, key)
	}
	sort.Strings(ks)
	for _, key := range ks {
		so, ok := s.hsort[key]
		if !ok {
			continue
		}
		vals := make([]Term, n)
		for i, p := range arr {
			vals[i] = s.H(p.st, key, so)
		}
		m.heap[key] = pickT(vals)
	}
	// frame
	fr := &Frame{fn: base.fr.fn, regs: map[ssa.Value]Value{}, cells: map[*ssa.Alloc]Term{}, k: base.fr.k, entry: base.fr.entry, params: base.fr.params, callN: map[string]int{}, defers: append([]deferred(nil), base.fr.defers...)}
	m.fr = fr
	for a := range base.fr.cells {
		vals := make([]Term, 0, n)
		for _, p := range arr {
			v, ok := p.st.fr.cells[a]
			if !ok {
				break
			}
			vals = append(vals, v)
		}
		if len(vals) == n {
			fr.cells[a] = pickT(vals)
		}
	}
	for r, v0 := range base.fr.regs {
		switch x := v0.(type) {
		case Term:
			vals := make([]Term, 0, n)
			for _, p := range arr {
				v, ok := p.st.fr.regs[r].(Term)
				if !ok {
					break
				}
				vals = append(vals, v)
			}
			if len(vals) == n && sameSort(vals) {
				fr.regs[r] = pickT(vals)
			}
		case *CellPtr:
			all := true
			for _, p := range arr {
				if cp, ok := p.st.fr.regs[r].(*CellPtr); !ok || cp.A != x.A {
					all = false
				}
			}
			if all {
				fr.regs[r] = &CellPtr{x.A, fr}
			}
		default:
			// closures, iterators, locations, tuples: keep if structurally identical in all states
			all := true
			for _, p := range arr[1:] {
				if fmt.Sprintf("%v", p.st.fr.regs[r]) != fmt.Sprintf("%v", v0) {
					all = false
				}
			}
			if all {
				fr.regs[r] = s.rebind(v0, base.fr, fr)
			}
		}
	}
	// deferred closures capture cell pointers of the old frame
	for i, d := range fr.defers {
		fr.defers[i].fnv = s.rebind(d.fnv, base.fr, fr)
		for j, a := range d.args {
			fr.defers[i].args[j] = s.rebind(a, base.fr, fr)
		}
	}
	for id := range base.seen {
		vals := make([]Term, 0, n)
		for _, p := range arr {
			if v, ok := p.st.seen[id]; ok {
				vals = append(vals, v)
			}
		}
		if len(vals) == n {
			m.seen[id] = pickT(vals)
		}
	}
	cks := map[string]bool{}
	for _, p := range arr {
		for ck := range p.st.counts {
			cks[ck] = true
		}
	}
	for ck := range cks {
		vals := make([]Term, n)
		for i, p := range arr {
			if v, ok := p.st.counts[ck]; ok {
				vals[i] = v
			} else {
				vals[i] = TZero
			}
		}
		m.counts[ck] = pickT(vals)
	}
	m.path = append(append([]string(nil), base.path[:commonPath(arr)]...), "M")
	return []parked{{m, arr[0].from}}
}

func sameSort(ts []Term) bool {
	for _, t := range ts[1:] {
		if t.Sort != ts[0].Sort {
			return false
		}
	}
	return true
}

func commonPath(arr []parked) int {
	k := 0
	for ; ; k++ {
		for _, p := range arr {
			if k >= len(p.st.path) || p.st.path[k] != arr[0].st.path[k] {
				return k
			}
		}
	}
}

// rebind re-targets cell pointers from frame old to frame nw.
func (s *Session) rebind(v Value, old, nw *Frame) Value {
	switch x := v.(type) {
	case *CellPtr:
		if x.Fr == old {
			return &CellPtr{x.A, nw}
		}
	case *Closure:
		nb := make([]Value, len(x.Bind))
		for i, b := range x.Bind {
			nb[i] = s.rebind(b, old, nw)
		}
		return &Closure{x.Fn, nb}
	case Tuple:
		nt := make(Tuple, len(x))
		for i, e := range x {
			nt[i] = s.rebind(e, old, nw)
		}
		return nt
	}
	return v
}
