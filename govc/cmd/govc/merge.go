package main

// State merging at control-flow joins of the function under verification:
// states arriving at a block with several forward predecessors are parked and
// merged (values become ite-terms over fresh branch flags), which keeps the
// number of paths linear in the number of independent branches.

import (
	"fmt"
	"sort"

	"golang.org/x/tools/go/ssa"
)

type parked struct {
	st   *State
	from *ssa.BasicBlock
}

func (s *Session) computeRPO() {
	s.rpo = map[*ssa.BasicBlock]int{}
	s.fwdPreds = map[*ssa.BasicBlock]int{}
	s.rpoDone = map[*ssa.Function]bool{}
	s.rpoFor(s.fn)
}

func (s *Session) rpoFor(fn *ssa.Function) {
	if s.rpoDone[fn] {
		return
	}
	s.rpoDone[fn] = true
	seen := map[*ssa.BasicBlock]bool{}
	var post []*ssa.BasicBlock
	var dfs func(b *ssa.BasicBlock)
	dfs = func(b *ssa.BasicBlock) {
		seen[b] = true
		for _, succ := range b.Succs {
			if succ.Dominates(b) {
				continue // back edge
			}
			if !seen[succ] {
				dfs(succ)
			}
		}
		post = append(post, b)
	}
	if len(fn.Blocks) > 0 {
		dfs(fn.Blocks[0])
	}
	for i := range post {
		s.rpo[post[len(post)-1-i]] = i
	}
	for _, b := range fn.Blocks {
		for _, succ := range b.Succs {
			if !succ.Dominates(b) {
				s.fwdPreds[succ]++
			}
		}
	}
}

func (s *Session) shouldPark(st *State, b, from *ssa.BasicBlock) bool {
	if !s.mergeOn || st.fr.fn != b.Parent() {
		return false
	}
	s.rpoFor(b.Parent())
	if s.resumeBlock == b {
		s.resumeBlock = nil
		return false
	}
	if from != nil && b.Dominates(from) {
		return false // back edge: checked immediately
	}
	if s.fwdPreds[b] < 2 {
		return false
	}
	if len(b.Instrs) > 0 {
		if _, isPhi := b.Instrs[0].(*ssa.Phi); isPhi {
			return false
		}
	}
	return true
}

// drain resumes parked states, lowest block (in reverse post-order) first.
func (s *Session) drain() {
	for len(s.pending) > 0 {
		// deepest inlined frame first (it must return before its caller continues), then block order
		var pick *ssa.BasicBlock
		pickDepth := -1
		for b, arr := range s.pending {
			d := arr[0].st.fr.depth
			if pick == nil || d > pickDepth || (d == pickDepth && (b.Parent() != pick.Parent() && b.Parent().Name() < pick.Parent().Name() || b.Parent() == pick.Parent() && s.rpo[b] < s.rpo[pick])) {
				pick, pickDepth = b, d
			}
		}
		arr := s.pending[pick]
		delete(s.pending, pick)
		merged := s.mergeStates(arr)
		for _, m := range merged {
			s.resumeBlock = pick
			s.execFrom(m.st, pick, m.from)
		}
	}
}

func chainShape(f *Frame) string {
	out := ""
	for ; f != nil; f = f.parent {
		out += fmt.Sprintf("%p/%s;", f.fn, f.site)
	}
	return out
}

func (s *Session) mergeStates(arr []parked) []parked {
	if len(arr) == 1 {
		return arr
	}
	// group by frame-chain shape and deferred calls; merge each group
	groups := map[string][]parked{}
	var order []string
	for _, p := range arr {
		key := chainShape(p.st.fr)
		for f := p.st.fr; f != nil; f = f.parent {
			for _, d := range f.defers {
				key += fmt.Sprintf("d%p", d.call)
			}
			key += "|"
		}
		if _, ok := groups[key]; !ok {
			order = append(order, key)
		}
		groups[key] = append(groups[key], p)
	}
	var out []parked
	for _, key := range order {
		out = append(out, s.mergeGroup(groups[key]))
	}
	return out
}

func (s *Session) mergeGroup(arr []parked) parked {
	if len(arr) == 1 {
		return arr[0]
	}
	base := arr[0].st
	n := len(arr)
	// common prefix of the path conditions
	k := 0
	for ; ; k++ {
		ok := true
		for _, p := range arr {
			if k >= len(p.st.pc) || k >= len(base.pc) || p.st.pc[k] != base.pc[k] {
				ok = false
				break
			}
		}
		if !ok {
			break
		}
	}
	m := &State{heap: map[string]Term{}, epoch: base.epoch, seen: map[int]Term{}, counts: map[string]Term{}}
	m.pc = append([]Assump(nil), base.pc[:k]...)
	flags := make([]Term, n)
	for i, p := range arr {
		flags[i] = s.fresh("br", SBool)
		var suffix []Term
		for _, a := range p.st.pc[k:] {
			suffix = append(suffix, a.T)
		}
		m.pc = append(m.pc, Assump{Implies(flags[i], And(suffix...)), ""})
	}
	m.pc = append(m.pc, Assump{Or(flags...), ""})
	pickT := func(vals []Term) Term {
		same := true
		for _, v := range vals[1:] {
			if v != vals[0] {
				same = false
			}
		}
		if same {
			return vals[0]
		}
		out := vals[n-1]
		for i := n - 2; i >= 0; i-- {
			out = Ite(flags[i], vals[i], out)
		}
		nm := s.fresh("mrg", out.Sort)
		m.pc = append(m.pc, Assump{Eq(nm, out), ""})
		return nm
	}
	keys := map[string]bool{}
	epochDiffer := false
	for _, p := range arr {
		for key := range p.st.heap {
			keys[key] = true
		}
		if p.st.epoch != base.epoch {
			epochDiffer = true
		}
	}
	if epochDiffer {
		for key := range s.hsort {
			keys[key] = true
		}
	}
	var ks []string
	for key := range keys {
		ks = append(ks, key)
	}
	sort.Strings(ks)
	for _, key := range ks {
		so, ok := s.hsort[key]
		if !ok {
			continue
		}
		vals := make([]Term, n)
		for i, p := range arr {
			vals[i] = s.H(p.st, key, so)
		}
		m.heap[key] = pickT(vals)
	}
	// frame chain, innermost first
	frames := make([][]*Frame, n)
	for i, p := range arr {
		for f := p.st.fr; f != nil; f = f.parent {
			frames[i] = append(frames[i], f)
		}
	}
	depthN := len(frames[0])
	newFrames := make([]*Frame, depthN)
	for lvl := 0; lvl < depthN; lvl++ {
		bf := frames[0][lvl]
		nf := &Frame{fn: bf.fn, regs: map[ssa.Value]Value{}, cells: map[*ssa.Alloc]Term{}, k: bf.k, entry: bf.entry, params: bf.params, callN: map[string]int{}, defers: append([]deferred(nil), bf.defers...), depth: bf.depth, inline: bf.inline, site: bf.site}
		newFrames[lvl] = nf
	}
	for lvl := 0; lvl+1 < depthN; lvl++ {
		newFrames[lvl].parent = newFrames[lvl+1]
	}
	remap := func(v Value) Value {
		for lvl := 0; lvl < depthN; lvl++ {
			v = s.rebind(v, frames[0][lvl], newFrames[lvl])
		}
		return v
	}
	for lvl := 0; lvl < depthN; lvl++ {
		bf, nf := frames[0][lvl], newFrames[lvl]
		for a := range bf.cells {
			vals := make([]Term, 0, n)
			for i := range arr {
				v, ok := frames[i][lvl].cells[a]
				if !ok {
					break
				}
				vals = append(vals, v)
			}
			if len(vals) == n {
				nf.cells[a] = pickT(vals)
			}
		}
		for r, v0 := range bf.regs {
			switch x := v0.(type) {
			case Term:
				vals := make([]Term, 0, n)
				for i := range arr {
					v, ok := frames[i][lvl].regs[r].(Term)
					if !ok {
						break
					}
					vals = append(vals, v)
				}
				if len(vals) == n && sameSort(vals) {
					nf.regs[r] = pickT(vals)
				}
			case *CellPtr:
				all := true
				for i := range arr {
					if cp, ok := frames[i][lvl].regs[r].(*CellPtr); !ok || cp.A != x.A {
						all = false
					}
				}
				if all {
					nf.regs[r] = remap(x)
				}
			default:
				all := true
				for i := 1; i < n; i++ {
					if describe(frames[i][lvl].regs[r]) != describe(v0) {
						all = false
					}
				}
				if all {
					nf.regs[r] = remap(v0)
				}
			}
		}
		{
			names := map[string]Sort{}
			for i := range arr {
				for name, v := range frames[i][lvl].glocals {
					names[name] = v.Sort
				}
			}
			if len(names) > 0 {
				nf.glocals = map[string]Term{}
			}
			for name, so := range names {
				vals := make([]Term, n)
				for i := range arr {
					if v, ok := frames[i][lvl].glocals[name]; ok {
						vals[i] = v
					} else {
						vals[i] = zeroTerm(so) // never assigned on that path
					}
				}
				nf.glocals[name] = pickT(vals)
			}
		}
		for i, d := range nf.defers {
			nf.defers[i].fnv = remap(d.fnv)
			na := make([]Value, len(d.args))
			for j, a := range d.args {
				na[j] = remap(a)
			}
			nf.defers[i].args = na
		}
	}
	m.fr = newFrames[0]
	for id := range base.seen {
		vals := make([]Term, 0, n)
		for _, p := range arr {
			if v, ok := p.st.seen[id]; ok {
				vals = append(vals, v)
			}
		}
		if len(vals) == n {
			m.seen[id] = pickT(vals)
		}
	}
	cks := map[string]bool{}
	for _, p := range arr {
		for ck := range p.st.counts {
			cks[ck] = true
		}
	}
	for ck := range cks {
		vals := make([]Term, n)
		for i, p := range arr {
			if v, ok := p.st.counts[ck]; ok {
				vals[i] = v
			} else {
				vals[i] = TZero
			}
		}
		m.counts[ck] = pickT(vals)
	}
	m.path = append(append([]string(nil), base.path[:commonPath(arr)]...), "M")
	return parked{m, arr[0].from}
}

// describe: structural description of a Go-side value (cell pointers by variable, not by frame)
func describe(v Value) string {
	switch x := v.(type) {
	case *CellPtr:
		return fmt.Sprintf("cell(%p)", x.A)
	case *Closure:
		out := fmt.Sprintf("clo(%p", x.Fn)
		for _, b := range x.Bind {
			out += "," + describe(b)
		}
		return out + ")"
	case Tuple:
		out := "tup("
		for _, e := range x {
			out += describe(e) + ","
		}
		return out + ")"
	case *Loc:
		return fmt.Sprintf("loc(%s,%v)", x.Key, x.Idx)
	case *Iter:
		return fmt.Sprintf("iter(%d)", x.id)
	case nil:
		return "nil"
	}
	return fmt.Sprintf("%v", v)
}

func sameSort(ts []Term) bool {
	for _, t := range ts[1:] {
		if t.Sort != ts[0].Sort {
			return false
		}
	}
	return true
}

func commonPath(arr []parked) int {
	k := 0
	for ; ; k++ {
		for _, p := range arr {
			if k >= len(p.st.path) || p.st.path[k] != arr[0].st.path[k] {
				return k
			}
		}
	}
}

// rebind re-targets cell pointers from frame old to frame nw.
func (s *Session) rebind(v Value, old, nw *Frame) Value {
	switch x := v.(type) {
	case *CellPtr:
		if x.Fr == old {
			return &CellPtr{x.A, nw}
		}
	case *Closure:
		nb := make([]Value, len(x.Bind))
		for i, b := range x.Bind {
			nb[i] = s.rebind(b, old, nw)
		}
		return &Closure{x.Fn, nb}
	case Tuple:
		nt := make(Tuple, len(x))
		for i, e := range x {
			nt[i] = s.rebind(e, old, nw)
		}
		return nt
	}
	return v
}
