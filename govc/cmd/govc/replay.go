package main

// From a failed obligation to a replay file.
//
// The solvers answer unknown/timeout (no model) for failed obligations with
// quantifiers, which is almost all of them. To still demonstrate a violation on
// the real code, a bounded witness search keyed to the failed obligation's
// function is run: oracle / canary tests under /verif/replays, injected into the
// package with `go test -overlay` (nothing is written to /repo). A failing test
// is a concrete counterexample replayed on the real code; if none fails the
// violation is reported with "no-failing-input-found". The search is never
// counted as evidence that a property holds.

import (
	"context"
	"encoding/json"
	"fmt"
	"os"
	"os/exec"
	"path/filepath"
	"strings"
	"time"
)

type oracleEntry struct {
	Match    string   `json:"match"`
	Dir      string   `json:"dir"`
	File     string   `json:"file"`
	Run      string   `json:"run"`
	Extra    []string `json:"extra"`
	RunExtra string   `json:"runextra"`
}

var oracleCache = map[string]map[string]interface{}{}

func replayObligation(P *Prog, dir, id string, o *oblResult) (string, bool) {
	extra, found := tryCounterexample(P, id, o)
	return writeReplay(dir, id, o, extra), found
}

func tryCounterexample(P *Prog, id string, o *oblResult) (map[string]interface{}, bool) {
	if os.Getenv("GOVC_CHILD") != "" {
		// a run of the thorough tier's own corpora: only the verdict (exit status) is used, the witness
		// search (go test on the scratch copy, up to a minute per entry) would be thrown away
		return nil, false
	}
	data, err := os.ReadFile(filepath.Join(verifRoot, "replays", "oracle", "index.json"))
	if err != nil {
		return nil, false
	}
	var idx struct {
		Entries []oracleEntry `json:"entries"`
	}
	if json.Unmarshal(data, &idx) != nil {
		return nil, false
	}
	var tried []string
	for _, e := range idx.Entries {
		if !strings.HasPrefix(o.Name, e.Match) {
			continue
		}
		key := e.Dir + "|" + e.File + "|" + e.Run + "|" + strings.Join(e.Extra, ",")
		res, ok := oracleCache[key]
		if !ok {
			res = runOracle(e)
			oracleCache[key] = res
		}
		tried = append(tried, fmt.Sprintf("%s -run '%s' in %s: %v", e.File, e.Run, e.Dir, res["verdict"]))
		if res["verdict"] == "FAIL" {
			out := map[string]interface{}{
				"counterexample": map[string]interface{}{
					"kind":    "bounded witness search on the real code (go test -overlay), keyed to the failed obligation",
					"test":    e.File,
					"run":     res["cmd"],
					"output":  res["output"],
					"witness": res["witness"],
					"overlay": res["overlay"],
					"dir":     res["dir"],
					"runpat":  res["runpat"],
				},
				"witness_search": tried,
			}
			return out, true
		}
	}
	if len(tried) == 0 {
		return map[string]interface{}{"witness_search": []string{"no witness search is registered for this function"}}, false
	}
	return map[string]interface{}{"witness_search": tried}, false
}

func runOracle(e oracleEntry) map[string]interface{} {
	repl := map[string]string{}
	files := append([]string{e.File}, e.Extra...)
	for i, f := range files {
		repl[filepath.Join(repoRoot, e.Dir, fmt.Sprintf("zz_govc_replay%d_test.go", i))] = filepath.Join(verifRoot, f)
	}
	ov, _ := json.Marshal(map[string]interface{}{"Replace": repl})
	ovf := filepath.Join(workDir, fmt.Sprintf("overlay%d.json", len(oracleCache)))
	os.WriteFile(ovf, ov, 0644)
	run := e.Run
	if e.RunExtra != "" {
		run += "|" + e.RunExtra
	}
	ctx, cancel := context.WithTimeout(context.Background(), 150*time.Second)
	defer cancel()
	args := []string{"test", "-overlay", ovf, "-vet=off", "-count=1", "-timeout", "120s", "-run", run, "./" + e.Dir + "/"}
	cmd := exec.CommandContext(ctx, "go", args...)
	cmd.Dir = repoRoot
	cmd.Env = append(os.Environ(), "GOFLAGS=-mod=mod", "GOPROXY=off", "GOSUMDB=off", "GOTOOLCHAIN=local")
	outb, err := cmd.CombinedOutput()
	out := string(outb)
	res := map[string]interface{}{"cmd": "go " + strings.Join(args, " "), "output": truncate(out, 6000), "overlay": repl, "dir": e.Dir, "runpat": run}
	switch {
	case err == nil:
		res["verdict"] = "pass"
	case strings.Contains(out, "--- FAIL") || strings.Contains(out, "panic:"):
		res["verdict"] = "FAIL"
		var w []string
		for _, l := range strings.Split(out, "\n") {
			if strings.Contains(l, "WITNESS") || strings.Contains(l, "panic:") || strings.Contains(l, "--- FAIL") {
				w = append(w, strings.TrimSpace(l))
				if len(w) >= 8 {
					break
				}
			}
		}
		res["witness"] = w
	default:
		res["verdict"] = "error (does not build or timed out)"
	}
	return res
}

// cmdReplay re-runs the recorded witness test of a replay file against /repo's current tree.
func cmdReplay(args []string) int {
	if len(args) != 1 {
		fmt.Fprintln(os.Stderr, "usage: govc replay <replay-file.json>")
		return 2
	}
	data, err := os.ReadFile(args[0])
	if err != nil {
		fmt.Fprintln(os.Stderr, err)
		return 2
	}
	var rec struct {
		Property       string `json:"property"`
		Obligation     string `json:"obligation"`
		Reason         string `json:"reason"`
		Counterexample *struct {
			Overlay map[string]string `json:"overlay"`
			Dir     string            `json:"dir"`
			RunPat  string            `json:"runpat"`
		} `json:"counterexample"`
	}
	if err := json.Unmarshal(data, &rec); err != nil {
		fmt.Fprintln(os.Stderr, err)
		return 2
	}
	fmt.Printf("property %s, failed obligation %s\n  %s\n", rec.Property, rec.Obligation, rec.Reason)
	if rec.Counterexample == nil {
		fmt.Println("no failing input was found for this obligation (the record carries the obligation, the SMT file and the solver output)")
		return 0
	}
	ov, _ := json.Marshal(map[string]interface{}{"Replace": rec.Counterexample.Overlay})
	ovf := filepath.Join(workDir, "replay-overlay.json")
	os.WriteFile(ovf, ov, 0644)
	cmd := exec.Command("go", "test", "-overlay", ovf, "-vet=off", "-count=1", "-timeout", "120s", "-run", rec.Counterexample.RunPat, "./"+rec.Counterexample.Dir+"/")
	cmd.Dir = repoRoot
	cmd.Env = append(os.Environ(), "GOFLAGS=-mod=mod", "GOPROXY=off", "GOSUMDB=off", "GOTOOLCHAIN=local")
	cmd.Stdout, cmd.Stderr = os.Stdout, os.Stderr
	if err := cmd.Run(); err != nil {
		fmt.Println("replay: the witness test FAILS on the current tree (violation reproduced)")
		return 1
	}
	fmt.Println("replay: the witness test passes on the current tree")
	return 0
}
