package main

// From a failed obligation to a replay file. The counterexample search
// (model-based replay on the real code) is per function; where none is
// available the record carries the obligation and the solver output.

func replayObligation(P *Prog, dir, id string, o *oblResult) (string, bool) {
	extra, found := tryCounterexample(P, id, o)
	return writeReplay(dir, id, o, extra), found
}

func tryCounterexample(P *Prog, id string, o *oblResult) (map[string]interface{}, bool) {
	return nil, false
}
