package main

import (
	"sort"
	"go/constant"
	"fmt"
	"go/token"
	"go/types"
	"math/big"
	"strings"

	"golang.org/x/tools/go/ssa"
)

func parseBig(s string) *big.Int {
	n, ok := new(big.Int).SetString(s, 10)
	if !ok {
		panic("parseBig " + s)
	}
	return n
}
func subBig(a, b string) string { return new(big.Int).Sub(parseBig(a), parseBig(b)).String() }

// ---------------------------------------------------------------- calls

func (s *Session) execCall(st *State, c *ssa.CallCommon, instr ssa.Instruction, pos token.Pos, k func(st *State, res Value)) {
	if instr != nil {
		s.curSite = s.siteOf(st, instr)
		if !st.fr.inline {
			s.curInstr = instr
		}
	}
	var args []Value
	for _, a := range c.Args {
		args = append(args, s.val(st, a))
	}
	var fnv Value
	fnv = s.val(st, c.Value)
	s.execCallWith(st, c, fnv, args, instr, pos, k)
}

func resultValue(sig *types.Signature, res []Value) Value {
	switch sig.Results().Len() {
	case 0:
		return Unit{}
	case 1:
		return res[0]
	}
	return Tuple(res)
}

func (s *Session) execCallWith(st *State, c *ssa.CallCommon, fnv Value, args []Value, instr ssa.Instruction, pos token.Pos, k func(st *State, res Value)) {
	sig := c.Signature()
	// ---- builtins
	if b, ok := c.Value.(*ssa.Builtin); ok {
		k(st, s.builtin(st, b, c, args, pos))
		return
	}
	// ---- interface method
	if c.IsInvoke() {
		recv := s.asTerm(fnv, c.Value.Type())
		s.check(st, "safe.nil", s.obl("safe.nil", "iface."+c.Method.Name()), Ne(ITag(recv), TZero), pos)
		st.assume(Ne(ITag(recv), TZero))
		con := s.ifaceContract(c)
		name := ifaceMethodName(c)
		if con == nil {
			if s.sweep {
				s.note("default contract (havoc all) for interface method " + name)
				s.havocAll(st)
				k(st, s.freshResults(st, sig, name))
				return
			}
			fatalf("%s: no contract for interface method %s (at %s)", s.name, name, s.P.pos(pos))
		}
		all := append([]Value{recv}, args...)
		s.applyContract(st, con, nil, sig, all, name, pos, k)
		return
	}
	// ---- static callee / closure / func value
	var callee *ssa.Function
	var bind []Value
	switch f := fnv.(type) {
	case *FuncRef:
		callee = f.Fn
	case *Closure:
		callee, bind = f.Fn, f.Bind
	case Term:
		if v, ok := escapeTable[f.S]; ok {
			switch g := v.(type) {
			case *Closure:
				callee, bind = g.Fn, g.Bind
			case *FuncRef:
				callee = g.Fn
			}
		}
	}
	if callee == nil {
		// dynamic call of an unknown function value
		fv := s.asTerm(fnv, c.Value.Type())
		s.check(st, "safe.nil", s.obl("safe.nil", "funcvalue"), Ne(fv, TZero), pos)
		fvName := c.Value.Name()
		if u, ok := c.Value.(*ssa.UnOp); ok {
			switch x := u.X.(type) {
			case *ssa.Alloc:
				fvName = x.Comment
			case *ssa.FreeVar:
				fvName = x.Name()
			case *ssa.FieldAddr:
				if st, ok := x.X.Type().Underlying().(*types.Pointer).Elem().Underlying().(*types.Struct); ok {
					fvName = st.Field(x.Field).Name()
				}
			}
		}
		cs := s.callsiteSpec("funcvalue:" + fvName)
		isCancel := false
		if nt, ok := c.Value.Type().(*types.Named); ok && nt.Obj().Pkg() != nil && nt.Obj().Pkg().Path() == "context" && nt.Obj().Name() == "CancelFunc" {
			// assumed contract of the standard library: a context.CancelFunc only cancels its context
			s.trusted["context.CancelFunc"] = true
			isCancel = true
		}
		switch {
		case cs != nil && len(cs.Assume) > 0:
			// an explicit, listed assumption about this dynamic call
			s.note("assumed: dynamic call " + c.Value.Name() + " " + cs.Assume[0].Src)
		case isCancel:
		default:
			s.note(fmt.Sprintf("dynamic call of func value %s at %s: havoc all", c.Value.Name(), s.P.pos(pos)))
			s.havocAll(st)
		}
		s.bumpCalls(st, "funcvalue:"+fvName)
		res := s.freshResults(st, sig, "dyn")
		if cs != nil {
			cenv := s.callerEnv(st)
			cenv.pos = pos
			for _, a := range cs.Assume {
				st.assume(s.evalBool(st, cenv, a.E, a.Src))
			}
			for _, a := range cs.Ghost {
				s.ghostAssign(st, cenv, a)
			}
		}
		k(st, res)
		return
	}
	if v, ok := s.atomicCall(st, callee, args, pos); ok {
		k(st, v)
		return
	}
	if callee.Pkg != nil && callee.Pkg.Pkg.Path() == "sync" && callee.Name() == "Do" && len(args) == 2 {
		// (*sync.Once).Do(f): assumed contract of sync.Once — f runs iff the Once has not fired yet
		// (ghost onceDone), and every caller returns after f has completed
		s.trusted["sync.(*Once).Do"] = true
		once := s.asTerm(args[0], nil)
		so := ArrSort(SInt, SBool)
		s.check(st, "safe.nil", s.obl("safe.nil", "once"), Ne(once, TZero), pos)
		done := Select(s.H(st, "G_onceDone", so), once)
		st2 := st.clone()
		st.assume(Not(done))
		st.path = append(st.path, "o")
		s.setH(st, "G_onceDone", so, Store(s.H(st, "G_onceDone", so), once, TTrue))
		fnv := args[1]
		if t, isT := fnv.(Term); isT {
			if v, found := escapeTable[t.S]; found {
				fnv = v
			}
		}
		if cl, isC := fnv.(*Closure); isC && cl.Fn.Blocks != nil {
			cpkg, crel := s.P.qualName(cl.Fn)
			if ccon := s.P.contractOf(cpkg, crel); ccon != nil {
				s.applyContract(st, ccon, cl.Fn, cl.Fn.Signature, append([]Value{}, cl.Bind...), s.P.fnName(cl.Fn), pos, func(st *State, _ Value) { k(st, Unit{}) })
			} else {
				s.inlineCall(st, cl.Fn, cl.Bind, nil, pos, func(st *State, _ Value) { k(st, Unit{}) })
			}
		} else {
			s.note("sync.Once.Do with a function value that is not a literal closure: havoc all")
			s.havocAll(st)
			k(st, Unit{})
		}
		st2.assume(done)
		st2.path = append(st2.path, "O")
		k(st2, Unit{})
		return
	}
	pkg, rel := s.P.qualName(callee)
	qn := pkg + "." + rel
	if callee.Pkg != nil && strings.HasPrefix(pkg, modPath) {
		qn = s.P.fnName(callee)
	}
	// synthetic wrappers / bound methods: unwrap is not attempted
	con := s.P.contractOf(pkg, rel)
	if qn == "fmt.Errorf" && con != nil {
		k = s.errorfWrap(c, args, k)
	}
	if con != nil {
		if con.Flags["inline"] && callee.Blocks != nil {
			s.inlineCall(st, callee, bind, args, pos, k)
			return
		}
		s.applyContract(st, con, callee, sig, args, qn, pos, k)
		return
	}
	if callee.Blocks != nil && s.canInline(callee) && st.fr.depth < 6 {
		s.inlined[qn] = true
		s.inlineCall(st, callee, bind, args, pos, k)
		return
	}
	if callee.Blocks == nil || !strings.HasPrefix(pkg, modPath) {
		if callee.Synthetic != "" && callee.Blocks != nil {
			// wrapper / thunk generated by go/ssa: inline it
			s.inlineCall(st, callee, bind, args, pos, k)
			return
		}
		if dc := s.defaultLibContract(callee, pkg, rel); dc != nil {
			s.note("package-default library contract (no effect on modelled memory, no panic, arbitrary results) for " + qn)
			s.applyContract(st, dc, callee, sig, args, qn, pos, k)
			return
		}
		fatalf("%s: call of external function %s without a libspec entry (at %s)", s.name, qn, s.P.pos(pos))
	}
	if s.sweep {
		s.note("default contract (havoc all, arbitrary results) for " + qn)
		s.havocAll(st)
		k(st, s.freshResults(st, sig, rel))
		return
	}
	// An in-module callee without contract that cannot be inlined (it has a loop, or is large). Default
	// contract: it may modify exactly the heap entries its body (and the bodies / contracts of what it
	// calls, to depth 4) can store to — havocked as whole entries — and its results are arbitrary. A
	// helper that only reads therefore does not disturb the caller; obligations that depend on what the
	// helper computes or writes fail under their own names. (Havocking EVERYTHING here was tried and
	// rejected: one missing contract then fails dozens of unrelated obligations by time-out.)
	tmp := &loopInfo{keys: map[string]Sort{}, blocks: map[*ssa.BasicBlock]bool{}}
	for _, b := range callee.Blocks {
		for _, in := range b.Instrs {
			s.modOfInstr(in, tmp, map[*ssa.Alloc]bool{}, 1)
		}
	}
	if tmp.modAll {
		s.note("default contract for " + qn + " (no contract, not inlinable): may modify everything")
		s.havocAll(st)
	} else {
		var ks []string
		for k := range tmp.keys {
			ks = append(ks, k)
		}
		sort.Strings(ks)
		s.note(fmt.Sprintf("default contract for %s (no contract, not inlinable): modifies %v, results arbitrary", qn, ks))
		for _, k := range ks {
			if so, ok := s.hsort[k]; ok || tmp.keys[k] != "" {
				if !ok {
					s.heapSort(k, tmp.keys[k])
					so = tmp.keys[k]
				}
				_ = so
				s.havocKey(st, k)
			}
		}
	}
	if s.rg != nil {
		s.rgHavoc(st)
	}
	k(st, s.freshResults(st, sig, rel))
}

func (s *Session) note(msg string) {
	for _, n := range s.notes {
		if n == msg {
			return
		}
	}
	s.notes = append(s.notes, msg)
}

func (s *Session) freshResults(st *State, sig *types.Signature, hint string) Value {
	var res []Value
	for i := 0; i < sig.Results().Len(); i++ {
		res = append(res, s.freshTyped(st, "ret_"+hint, sig.Results().At(i).Type()))
	}
	return resultValue(sig, res)
}

func ifaceMethodName(c *ssa.CallCommon) string {
	t := types.Unalias(c.Value.Type())
	if n, ok := t.(*types.Named); ok && n.Obj().Pkg() != nil {
		return n.Obj().Pkg().Path() + "." + n.Obj().Name() + "." + c.Method.Name()
	}
	if n, ok := t.(*types.Named); ok {
		return n.Obj().Name() + "." + c.Method.Name() // error.Error
	}
	return "interface." + c.Method.Name()
}

func (s *Session) ifaceContract(c *ssa.CallCommon) *Contract {
	t := types.Unalias(c.Value.Type())
	if n, ok := t.(*types.Named); ok {
		pkg := ""
		if n.Obj().Pkg() != nil {
			pkg = n.Obj().Pkg().Path()
		} else {
			pkg = "builtin"
		}
		if con := s.P.contractOf(pkg, n.Obj().Name()+"."+c.Method.Name()); con != nil {
			return con
		}
		// embedded interfaces (io.Writer inside DecoratedOutputWriter): look the method up by its own package
		if m := c.Method; m != nil && m.Pkg() != nil {
			if recv := m.Type().(*types.Signature).Recv(); recv != nil {
				if rn, ok := recv.Type().(*types.Named); ok && rn.Obj().Pkg() != nil {
					if con := s.P.contractOf(rn.Obj().Pkg().Path(), rn.Obj().Name()+"."+m.Name()); con != nil {
						return con
					}
				}
			}
		}
	}
	return nil
}

// inlineCall executes callee's body in the current state.
func (s *Session) inlineCall(st *State, callee *ssa.Function, bind []Value, args []Value, pos token.Pos, k func(st *State, res Value)) {
	caller := st.fr
	fr := &Frame{fn: callee, regs: map[ssa.Value]Value{}, cells: map[*ssa.Alloc]Term{}, parent: caller, depth: caller.depth + 1, inline: true, callN: map[string]int{}, site: s.curSite}
	if len(args) != len(callee.Params) {
		fatalf("%s: inlining %s: %d args for %d params", s.name, callee.Name(), len(args), len(callee.Params))
	}
	for i, p := range callee.Params {
		fr.regs[p] = args[i]
	}
	for i, fv := range callee.FreeVars {
		if i < len(bind) {
			fr.regs[fv] = bind[i]
		}
	}
	fr.entry = caller.entry
	fr.params = caller.params
	sig := callee.Signature
	fr.k = func(st *State, results []Value) {
		// pop the frame: the continuation runs in the caller's frame of *this* state
		if st.fr.parent == nil {
			fatalf("%s: frame underflow returning from %s", s.name, callee.Name())
		}
		st.fr = st.fr.parent
		k(st, resultValue(sig, results))
	}
	st.fr = fr
	s.execFrom(st, callee.Blocks[0], nil)
}

// ---------------------------------------------------------------- builtins

func (s *Session) builtin(st *State, b *ssa.Builtin, c *ssa.CallCommon, args []Value, pos token.Pos) Value {
	switch b.Name() {
	case "len":
		a := s.asTerm(args[0], c.Args[0].Type())
		switch u := c.Args[0].Type().Underlying().(type) {
		case *types.Slice:
			return SLen(a)
		case *types.Basic:
			return mk(SInt, "strlen", a)
		case *types.Map:
			dk, _, ds, _ := mapKeys(u)
			name := "card_" + sanitize(string(elemSortOf(ds)))
			s.D.Fun(name, []Sort{elemSortOf(ds)}, SInt)
			r := mk(SInt, name, Select(s.H(st, dk, ds), a))
			st.assume(Le(TZero, r))
			st.assume(Le(r, BigLit("1152921504606846976")))
			return r
		case *types.Chan:
			return s.freshTyped(st, "chanlen", types.Typ[types.Int])
		case *types.Pointer:
			return IntLit(u.Elem().Underlying().(*types.Array).Len())
		case *types.Array:
			return IntLit(u.Len())
		}
	case "cap":
		a := s.asTerm(args[0], c.Args[0].Type())
		if _, ok := c.Args[0].Type().Underlying().(*types.Slice); ok {
			return SCap(a)
		}
		return s.freshTyped(st, "cap", types.Typ[types.Int])
	case "append":
		return s.appendOp(st, c, args)
	case "copy":
		dst := s.asTerm(args[0], c.Args[0].Type())
		et := c.Args[0].Type().Underlying().(*types.Slice).Elem()
		k, so := elemKey(et)
		E := s.H(st, k, so)
		na := s.fresh("copied", elemSortOf(so))
		s.setH(st, k, so, Store(E, SArr(dst), na))
		n := s.freshTyped(st, "ncopied", types.Typ[types.Int])
		st.assume(And(Le(TZero, n), Le(n, SLen(dst))))
		return n
	case "delete":
		m := s.asTerm(args[0], c.Args[0].Type())
		mt := c.Args[0].Type().Underlying().(*types.Map)
		key := s.asTerm(args[1], c.Args[1].Type())
		dk, _, ds, _ := mapKeys(mt)
		D := s.H(st, dk, ds)
		nd := Ite(Eq(m, TZero), D, Store(D, m, Store(Select(D, m), key, TFalse)))
		s.setH(st, dk, ds, nd)
		return Unit{}
	case "close":
		ch := s.asTerm(args[0], c.Args[0].Type())
		so := ArrSort(SInt, SBool)
		cl := s.H(st, "G_$closed", so)
		s.check(st, "safe.close", s.obl("safe.close", c.Args[0].Name()), And(Ne(ch, TZero), Not(Select(cl, ch))), pos)
		s.setH(st, "G_$closed", so, Store(cl, ch, TTrue))
		return Unit{}
	case "recover":
		// normal control flow is modelled only: a deferred recover() may or may not see a panic
		return s.freshTyped(st, "recovered", types.NewInterfaceType(nil, nil))
	case "ssa:wrapnilchk":
		return args[0]
	case "ssa:deferstack":
		return TZero
	case "print", "println":
		return Unit{}
	case "min", "max":
		a, bb := s.asTerm(args[0], c.Args[0].Type()), s.asTerm(args[1], c.Args[1].Type())
		if b.Name() == "min" {
			return Ite(Le(a, bb), a, bb)
		}
		return Ite(Le(a, bb), bb, a)
	}
	fatalf("%s: unsupported builtin %s", s.name, b.Name())
	return nil
}

// appendOp models append(s, xs...). The result has a fresh backing array
// holding the old elements followed by the new ones. In-place growth into spare
// capacity is modelled only where it can be observed within the function: when
// the operand derives from a reslice x[:n] made in this function (resliceAppends),
// the operand's array is havocked. Spare capacity shared through slices created
// elsewhere is NOT modelled: listed as an unchecked assumption in every evidence file.
func (s *Session) appendOp(st *State, c *ssa.CallCommon, args []Value) Value {
	sl := s.asTerm(args[0], c.Args[0].Type())
	et := c.Args[0].Type().Underlying().(*types.Slice).Elem()
	k, so := elemKey(et)
	innerSort := elemSortOf(so)
	var extra Term
	isStr := false
	if len(args) < 2 {
		return sl
	}
	if bt, ok := c.Args[1].Type().Underlying().(*types.Basic); ok && bt.Info()&types.IsString != 0 {
		isStr = true
	}
	extra = s.asTerm(args[1], c.Args[1].Type())
	if s.resliceAppends()[c] && !isStr {
		// name the two slice values: they are nested ite/mkslice terms (reslices) that would otherwise
		// be repeated in every quantified fact below
		n1, n2 := s.fresh("apdst", SSlice), s.fresh("apsrc", SSlice)
		st.assume(Eq(n1, sl))
		st.assume(Eq(n2, extra))
		sl, extra = n1, n2
	}
	E := s.H(st, k, so)
	na := s.alloc(st, "arr")
	newArr := s.fresh("appended", innerSort)
	var addLen Term
	if isStr {
		addLen = mk(SInt, "strlen", extra)
	} else {
		addLen = SLen(extra)
	}
	oldLen := SLen(sl)
	newLen := Add(oldLen, addLen)
	i := Term{"i!q", SInt}
	// old elements preserved
	st.assume(Term{fmt.Sprintf("(forall ((i!q Int)) (! (=> (and (<= 0 i!q) (< i!q %s)) (= (select %s i!q) (select (select %s %s) %s))) :pattern ((select %s i!q)) :pattern ((select (select %s %s) %s))))",
		oldLen.S, newArr.S, E.S, SArr(sl).S, SIdx(sl, Term{"i!q", SInt}).S, newArr.S, E.S, SArr(sl).S, SIdx(sl, Term{"i!q", SInt}).S), SBool})
	if !isStr {
		st.assume(Term{fmt.Sprintf("(forall ((i!q Int)) (! (=> (and (<= 0 i!q) (< i!q %s)) (= (select %s (+ %s i!q)) (select (select %s %s) %s))) :pattern ((select (select %s %s) %s))))",
			addLen.S, newArr.S, oldLen.S, E.S, SArr(extra).S, SIdx(extra, Term{"i!q", SInt}).S, E.S, SArr(extra).S, SIdx(extra, Term{"i!q", SInt}).S), SBool})
		// the same fact, triggered by reads of the result
		st.assume(Term{fmt.Sprintf("(forall ((p!q Int)) (! (=> (and (<= %s p!q) (< p!q (+ %s %s))) (= (select %s p!q) (select (select %s %s) %s))) :pattern ((select %s p!q))))",
			oldLen.S, oldLen.S, addLen.S, newArr.S, E.S, SArr(extra).S, SIdx(extra, Term{"(- p!q " + oldLen.S + ")", SInt}).S, newArr.S), SBool})
		// the common single-element case, without a quantifier instance
		st.assume(Implies(Eq(addLen, IntLit(1)), Eq(Select(newArr, oldLen), Select(Select(E, SArr(extra)), SIdx(extra, TZero)))))
	}
	_ = i
	E2 := Store(E, na, newArr)
	cp := s.fresh("cap", SInt)
	st.assume(And(Le(newLen, cp), Le(cp, BigLit("1152921504606846976"))))
	res := MkSlice(na, TZero, newLen, cp)
	if s.resliceAppends()[c] && !isStr {
		// The first operand may be a reslice (x[:n]) of a slice that stays visible elsewhere: Go then
		// appends IN PLACE while the capacity lasts, overwriting elements the longer slice still sees.
		// Exact model: if newLen <= cap(operand) the operand's own array row is updated (positions
		// [len, newLen) receive the new elements, read from the state before the call as memmove does,
		// everything else is unchanged) and the result shares that array; otherwise a fresh copy.
		s.note(fmt.Sprintf("append at %s: the operand may be a reslice of a live slice: in-place growth is modelled", s.P.pos(c.Pos())))
		inPlace := Le(newLen, SCap(sl))
		oldRow := Select(E, SArr(sl))
		ip := s.fresh("inplace", innerSort)
		lo := Add(SOff(sl), oldLen)
		hi := Add(SOff(sl), newLen)
		st.assume(Term{fmt.Sprintf("(forall ((p!q Int)) (! (=> (or (< p!q %s) (>= p!q %s)) (= (select %s p!q) (select %s p!q))) :pattern ((select %s p!q))))",
			lo.S, hi.S, ip.S, oldRow.S, ip.S), SBool})
		st.assume(Term{fmt.Sprintf("(forall ((p!q Int)) (! (=> (and (<= %s p!q) (< p!q %s)) (= (select %s p!q) (select (select %s %s) (+ (soff %s) (- p!q %s))))) :pattern ((select %s p!q))))",
			lo.S, hi.S, ip.S, E.S, SArr(extra).S, extra.S, lo.S, ip.S), SBool})
		E2 = Ite(inPlace, Store(E, SArr(sl), ip), E2)
		res = Ite(inPlace, MkSlice(SArr(sl), SOff(sl), newLen, SCap(sl)), res)
	}
	s.setH(st, k, so, E2)
	// append(nil, <empty>...) is nil
	return Ite(And(Eq(SArr(sl), TZero), Eq(addLen, TZero)), NilSlice, res)
}

// ---------------------------------------------------------------- go statement

func (s *Session) execGo(st *State, g *ssa.Go) {
	c := &g.Call
	var args []Value
	for _, a := range c.Args {
		args = append(args, s.val(st, a))
	}
	if c.IsInvoke() {
		fatalf("%s: go statement on an interface method", s.name)
	}
	fnv := s.val(st, c.Value)
	var callee *ssa.Function
	var bind []Value
	switch f := fnv.(type) {
	case *FuncRef:
		callee = f.Fn
	case *Closure:
		callee, bind = f.Fn, f.Bind
	}
	if callee == nil {
		fatalf("%s: go statement with a dynamic function value", s.name)
	}
	pkg, rel := s.P.qualName(callee)
	con := s.P.contractOf(pkg, rel)
	name := s.P.fnName(callee)
	if con == nil {
		if s.sweep {
			// the spawned function runs concurrently: the spawner relies on nothing it does
			// (race freedom of non-shared state is the listed assumption); its body is not checked here
			s.note("go " + name + ": spawned without a contract (body not verified in this check)")
			return
		}
		fatalf("%s: go statement: %s has no contract", s.name, name)
	}
	s.usedCon[name] = true
	// precondition of the spawned function is an obligation here; its
	// postcondition is NOT assumed (the goroutine has not run yet).
	cs := s.callsiteSpec("go " + relSuffix(name))
	if cs != nil {
		// site-specific preconditions are checked before the ghost hand-over
		for i, r := range cs.Requires {
			lbl := r.Label
			if lbl == "" {
				lbl = fmt.Sprintf("site%d", i+1)
			}
			s.checkG(st, "pre", s.obl("go("+relSuffix(name)+").pre#"+lbl, ""), s.evalBool(st, s.callerEnv(st), r.E, r.Src), g.Pos(), labelGroup(r.Label))
		}
		for _, a := range cs.GhostPre {
			s.ghostAssign(st, s.callerEnv(st), a)
		}
		for _, a := range cs.AssumePre {
			s.note("assumed at go " + relSuffix(name) + ": " + a.Src)
			st.assume(s.evalBool(st, s.callerEnv(st), a.E, a.Src))
		}
	}
	env := s.calleeEnv(st, con, callee, append(bind, args...), true)
	s.bindArgs(env, callee.Signature, callee, append(append([]Value{}, bind...), args...), false)
	for i, r := range con.Requires {
		lbl := r.Label
		if lbl == "" {
			lbl = fmt.Sprintf("%d", i+1)
		}
		s.checkG(st, "pre", s.obl("go("+relSuffix(name)+").pre#"+lbl, ""), s.evalBool(st, env, r.E, r.Src), g.Pos(), labelGroup(r.Label))
	}
	if cs != nil {
		for _, a := range cs.Ghost {
			s.ghostAssign(st, s.callerEnv(st), a)
		}
	}
	s.goCount(st, name)
}

func relSuffix(name string) string {
	if i := strings.LastIndex(name, ")."); i >= 0 {
		return name[i+2:]
	}
	if i := strings.LastIndex(name, "."); i >= 0 {
		return name[i+1:]
	}
	return name
}

// bumpCalls counts a call that is not handled through a contract (a dynamic call of a function
// value): calls(<field or variable name>) in specifications.
func (s *Session) bumpCalls(st *State, name string) {
	if i := strings.Index(name, ":"); i >= 0 {
		name = name[i+1:]
	}
	for _, kind := range []string{"calls:", "returned:"} {
		cur, ok := st.counts[kind+"funcvalue."+name]
		if !ok {
			cur = TZero
		}
		st.counts[kind+"funcvalue."+name] = Add(cur, IntLit(1))
	}
}

func (s *Session) goCount(st *State, name string) {
	key := "go:" + name
	cur, ok := st.counts[key]
	if !ok {
		cur = TZero
	}
	st.counts[key] = Add(cur, IntLit(1))
}

// neutralPkgs: library packages whose functions neither write memory the program can observe
// through its own types nor call back into the program (functions taking func/chan/non-empty
// interface parameters are excluded below). A function of such a package without an explicit
// libspec entry gets the default entry, so that an added strings.X or logrus.Debugf call is not a
// tool error. Packages with ghost state in libspec (bytes, sync, context) and packages that write
// through their arguments (sort, io, bufio) are deliberately absent.
var neutralPkgs = map[string]bool{
	"strings": true, "strconv": true, "unicode": true, "unicode/utf8": true, "math": true, "math/bits": true,
	"path": true, "path/filepath": true, "time": true, "errors": true, "fmt": true, "regexp": true,
	"github.com/sirupsen/logrus": true,
}

func (s *Session) defaultLibContract(callee *ssa.Function, pkg, rel string) *Contract {
	if callee == nil || !neutralPkgs[pkg] {
		return nil
	}
	name := callee.Name()
	if pkg == "fmt" && strings.Contains(name, "scan") || pkg == "fmt" && strings.Contains(name, "Scan") || pkg == "errors" && name == "As" {
		return nil // write through their arguments
	}
	sig := callee.Signature
	bad := func(t types.Type) bool {
		if sl, ok := t.Underlying().(*types.Slice); ok {
			t = sl.Elem()
		}
		switch u := t.Underlying().(type) {
		case *types.Signature, *types.Chan:
			return true
		case *types.Interface:
			if u.NumMethods() == 0 {
				return false
			}
			if n, ok := t.(*types.Named); ok && n.Obj().Pkg() == nil && n.Obj().Name() == "error" {
				return false
			}
			return true
		}
		return false
	}
	for i := 0; i < sig.Params().Len(); i++ {
		if bad(sig.Params().At(i).Type()) {
			return nil
		}
	}
	return &Contract{Pkg: pkg, Func: rel, Flags: map[string]bool{}, Waive: map[string]string{}, File: "package default", Line: 0}
}

// resliceAppends: the append calls of the function under verification whose first operand may
// derive from a Slice instruction (x[lo:hi]) — through local variables, phis and earlier appends.
func (s *Session) resliceAppends() map[*ssa.CallCommon]bool {
	if s.reslice != nil {
		return s.reslice
	}
	s.reslice = map[*ssa.CallCommon]bool{}
	tv := map[ssa.Value]bool{}   // tainted values
	tc := map[*ssa.Alloc]bool{}  // tainted local cells
	isAppend := func(v ssa.Value) (*ssa.Call, bool) {
		c, ok := v.(*ssa.Call)
		if !ok {
			return nil, false
		}
		b, ok := c.Call.Value.(*ssa.Builtin)
		return c, ok && b.Name() == "append"
	}
	var fns []*ssa.Function
	fns = append(fns, s.fn)
	for changed := true; changed; {
		changed = false
		mark := func(v ssa.Value) {
			if !tv[v] {
				tv[v] = true
				changed = true
			}
		}
		for _, fn := range fns {
			for _, b := range fn.Blocks {
				for _, in := range b.Instrs {
					switch x := in.(type) {
					case *ssa.Slice:
						if _, ok := x.X.Type().Underlying().(*types.Slice); ok {
							mark(x)
						}
					case *ssa.Phi:
						for _, e := range x.Edges {
							if tv[e] {
								mark(x)
							}
						}
					case *ssa.UnOp:
						if a, ok := x.X.(*ssa.Alloc); ok && x.Op == token.MUL && tc[a] {
							mark(x)
						}
					case *ssa.ChangeType:
						if tv[x.X] {
							mark(x)
						}
					case *ssa.Store:
						if a, ok := x.Addr.(*ssa.Alloc); ok && tv[x.Val] && !tc[a] {
							tc[a] = true
							changed = true
						}
					case *ssa.Call:
						if c, ok := isAppend(x); ok && len(c.Call.Args) > 0 && tv[c.Call.Args[0]] {
							mark(x)
						}
					}
				}
			}
		}
	}
	for _, b := range s.fn.Blocks {
		for _, in := range b.Instrs {
			if c, ok := isAppend2(in); ok && len(c.Call.Args) > 0 && tv[c.Call.Args[0]] {
				s.reslice[&c.Call] = true
			}
		}
	}
	return s.reslice
}

func isAppend2(in ssa.Instruction) (*ssa.Call, bool) {
	c, ok := in.(*ssa.Call)
	if !ok {
		return nil, false
	}
	b, ok := c.Call.Value.(*ssa.Builtin)
	return c, ok && b.Name() == "append"
}

// errorfWrap: what errors.Is sees through an error made by fmt.Errorf. With a constant format
// string, the result wraps the operand of its (first) %w verb and nothing else:
//   errIs(result, t)  <==>  t == result  ||  errIs(wrapped, t)      (with %w)
//   errIs(result, t)  ==>   t == result                             (without)
// errIs is the spec function of /verif/libspec (package errors) that errors.Is returns.
// A non-constant format leaves the result unconstrained.
func (s *Session) errorfWrap(c *ssa.CallCommon, args []Value, k func(*State, Value)) func(*State, Value) {
	if len(c.Args) < 1 {
		return k
	}
	cst, ok := c.Args[0].(*ssa.Const)
	if !ok || cst.Value == nil || cst.Value.Kind() != constant.String {
		return k
	}
	format := constant.StringVal(cst.Value)
	// position of the first %w among the verbs
	wIdx, n := -1, 0
	for i := 0; i < len(format); i++ {
		if format[i] != '%' {
			continue
		}
		i++
		for i < len(format) && strings.ContainsRune("+-# 0123456789.[]", rune(format[i])) {
			i++
		}
		if i >= len(format) {
			break
		}
		if format[i] == '%' {
			continue
		}
		if format[i] == 'w' && wIdx < 0 {
			wIdx = n
		}
		n++
	}
	return func(st *State, res Value) {
		r, isTerm := res.(Term)
		if !isTerm || r.Sort != SIface {
			k(st, res)
			return
		}
		s.D.Fun("sf_errIs", []Sort{SIface, SIface}, SBool)
		q := Term{"t!e", SIface}
		var body Term
		if wIdx >= 0 && len(args) >= 2 {
			sl := s.asTerm(args[1], c.Args[1].Type())
			et := types.Type(types.NewInterfaceType(nil, nil))
			if slt, ok := c.Args[1].Type().Underlying().(*types.Slice); ok {
				et = slt.Elem() // `any` and `interface{}` have different heap keys
			}
			ek, eso := elemKey(et)
			w := Select(Select(s.H(st, ek, eso), SArr(sl)), SIdx(sl, IntLit(int64(wIdx))))
			body = Eq(mk(SBool, "sf_errIs", r, q), Or(Eq(q, r), mk(SBool, "sf_errIs", w, q)))
		} else {
			body = Implies(mk(SBool, "sf_errIs", r, q), Eq(q, r))
		}
		st.assume(Term{fmt.Sprintf("(forall ((t!e Iface)) (! %s :pattern ((sf_errIs %s t!e))))", body.S, r.S), SBool})
		k(st, res)
	}
}
