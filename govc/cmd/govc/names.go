package main

// Name snapshot: the identifiers the contracts were written against.
//
// Contracts live in separate comment-only files and name parameters, named
// results and local variables of the functions they annotate. A later rename
// in the code would otherwise break the binding ("unknown identifier") although
// nothing about the behaviour changed. `govc names` records, for every in-module
// function that has a contract, its parameter names, result names and its local
// variables (go/ssa Allocs in order, with their types) in /verif/names.json
// (committed; regenerated only by hand, when contracts are edited).
//
// On a run an identifier of a contract that does not resolve in the current
// code is looked up in the snapshot:
//   - a parameter / receiver / named result is mapped by POSITION (the
//     signature's types are checked by the Go compiler);
//   - a local variable is mapped by position in the Alloc sequence, and only
//     if the current function has the same number of locals with the same
//     sequence of types as the snapshot (i.e. the only difference is naming).
// Every alias used is printed as a note. A binding found this way is a
// binding like any other: obligations are still proved about the code as it is.

import (
	"encoding/json"
	"fmt"
	"os"
	"path/filepath"
	"sort"
	"strings"

	"golang.org/x/tools/go/ssa"
)

type fnNames struct {
	Recv    string     `json:"recv,omitempty"`
	Params  []string   `json:"params"`
	Results []string   `json:"results"`
	Free    []string   `json:"free,omitempty"`
	Locals  [][2]string `json:"locals"` // name, type
}

var nameSnap map[string]*fnNames
var nameSnapLoaded bool

func snapshotOf(fn *ssa.Function) *fnNames {
	n := &fnNames{Params: []string{}, Results: []string{}, Locals: [][2]string{}}
	sig := fn.Signature
	if sig.Recv() != nil {
		n.Recv = sig.Recv().Name()
	}
	for i := 0; i < sig.Params().Len(); i++ {
		n.Params = append(n.Params, sig.Params().At(i).Name())
	}
	for i := 0; i < sig.Results().Len(); i++ {
		n.Results = append(n.Results, sig.Results().At(i).Name())
	}
	for _, fv := range fn.FreeVars {
		n.Free = append(n.Free, fv.Name())
	}
	for _, b := range fn.Blocks {
		for _, in := range b.Instrs {
			if a, ok := in.(*ssa.Alloc); ok {
				n.Locals = append(n.Locals, [2]string{a.Comment, a.Type().String()})
			}
		}
	}
	return n
}

func cmdNames() int {
	P := loadProg(repoRoot, filepath.Join(verifRoot, "libspec"))
	out := map[string]*fnNames{}
	var keys []string
	for name, fn := range P.fns {
		if fn.Pkg == nil {
			continue
		}
		pkg, rel := P.qualName(fn)
		if P.contractOf(pkg, rel) == nil {
			continue
		}
		out[name] = snapshotOf(fn)
		keys = append(keys, name)
	}
	sort.Strings(keys)
	data, _ := json.MarshalIndent(out, "", " ")
	if err := os.WriteFile(filepath.Join(verifRoot, "names.json"), append(data, '\n'), 0644); err != nil {
		fmt.Fprintln(os.Stderr, err)
		return 2
	}
	fmt.Printf("names.json: %d functions under contract\n", len(keys))
	return 0
}

func loadNameSnap() map[string]*fnNames {
	if nameSnapLoaded {
		return nameSnap
	}
	nameSnapLoaded = true
	data, err := os.ReadFile(filepath.Join(verifRoot, "names.json"))
	if err != nil {
		return nil
	}
	m := map[string]*fnNames{}
	if json.Unmarshal(data, &m) == nil {
		nameSnap = m
	}
	return nameSnap
}

// paramAliases: old name -> current name for receiver, parameters, named results and free variables
// of fn, where the snapshot differs from the current code.
func (P *Prog) paramAliases(fn *ssa.Function) map[string]string {
	if fn == nil || fn.Pkg == nil {
		return nil
	}
	snap := loadNameSnap()[P.fnName(fn)]
	if snap == nil {
		return nil
	}
	al := map[string]string{}
	sig := fn.Signature
	add := func(old, cur string) {
		if old != "" && old != "_" && cur != "" && cur != "_" && old != cur {
			al[old] = cur
		}
	}
	if sig.Recv() != nil {
		add(snap.Recv, sig.Recv().Name())
	}
	if len(snap.Params) == sig.Params().Len() {
		for i, o := range snap.Params {
			add(o, sig.Params().At(i).Name())
		}
	}
	if len(snap.Results) == sig.Results().Len() {
		for i, o := range snap.Results {
			add(o, sig.Results().At(i).Name())
		}
	}
	if len(snap.Free) == len(fn.FreeVars) {
		for i, o := range snap.Free {
			add(o, fn.FreeVars[i].Name())
		}
	}
	// a current name shadows an alias of the same spelling
	cur := map[string]bool{}
	if sig.Recv() != nil {
		cur[sig.Recv().Name()] = true
	}
	for i := 0; i < sig.Params().Len(); i++ {
		cur[sig.Params().At(i).Name()] = true
	}
	for i := 0; i < sig.Results().Len(); i++ {
		cur[sig.Results().At(i).Name()] = true
	}
	for _, fv := range fn.FreeVars {
		cur[fv.Name()] = true
	}
	for o := range al {
		if cur[o] {
			delete(al, o)
		}
	}
	return al
}

// addParamAliases makes the snapshot's names of renamed parameters/results available in env.
func (s *Session) addParamAliases(env *Env, fn *ssa.Function) {
	// a named result that lost its name (or was renamed): positional
	if fn != nil && fn.Pkg != nil {
		if snap := loadNameSnap()[s.P.fnName(fn)]; snap != nil && len(snap.Results) == fn.Signature.Results().Len() {
			for i, old := range snap.Results {
				if old == "" || old == "_" || i >= len(env.result) {
					continue
				}
				if _, bound := env.vars[old]; !bound {
					env.vars[old] = env.result[i]
					s.note(fmt.Sprintf("contract of %s: identifier %q resolved to result #%d (names.json)", s.P.fnName(fn), old, i))
				}
			}
		}
	}
	for old, cur := range s.P.paramAliases(fn) {
		if _, clash := env.vars[old]; clash {
			continue
		}
		if v, ok := env.vars[cur]; ok {
			env.vars[old] = v
			s.note(fmt.Sprintf("contract of %s: identifier %q resolved to the renamed parameter/result %q (names.json)", s.P.fnName(fn), old, cur))
		}
	}
}

// localAlias: the current source name (and ordinal among equally named Allocs) of the local that the
// snapshot knows as the ord-th local called base, or "" if the function's locals no longer line up.
func (P *Prog) localAlias(fn *ssa.Function, base string, ord int) (string, int) {
	snap := loadNameSnap()[P.fnName(fn)]
	if snap == nil {
		return "", 0
	}
	var cur [][2]string
	for _, b := range fn.Blocks {
		for _, in := range b.Instrs {
			if a, ok := in.(*ssa.Alloc); ok {
				cur = append(cur, [2]string{a.Comment, a.Type().String()})
			}
		}
	}
	if len(cur) != len(snap.Locals) {
		return "", 0
	}
	for i := range cur {
		if cur[i][1] != snap.Locals[i][1] {
			return "", 0
		}
	}
	n := 0
	for i, l := range snap.Locals {
		if l[0] != base {
			continue
		}
		n++
		if n != ord {
			continue
		}
		name := cur[i][0]
		if name == base || strings.HasPrefix(name, "complit") {
			return "", 0
		}
		k := 0
		for j := 0; j <= i; j++ {
			if cur[j][0] == name {
				k++
			}
		}
		return name, k
	}
	return "", 0
}
