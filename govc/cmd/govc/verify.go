package main

// Contract application at call sites, loop invariants, function-level
// verification driver (pre/post/frame/vacuity).

import (
	"fmt"
	"os"
	"strconv"
	"go/token"
	"go/types"
	"sort"
	"strings"

	"golang.org/x/tools/go/ssa"
)

// ---------------------------------------------------------------- modifies targets

type modTarget struct {
	Key   string
	Whole bool   // the whole heap entry
	Idx   Term   // outer index (object / array / map reference)
	Idx2  *Term  // inner index (element / key), optional
}

// modTargets evaluates the locations named by a modifies clause.
func (s *Session) modTargets(env *Env, exprs []Expr) []modTarget {
	var out []modTarget
	for _, x := range exprs {
		out = append(out, s.modTarget(env, x)...)
	}
	return out
}

func (s *Session) allFieldsOf(env *Env, t types.Type, obj Term) []modTarget {
	var out []modTarget
	switch u := t.Underlying().(type) {
	case *types.Struct:
		if isOpaque(t) {
			s.heapSort("F_"+typeKey(t)+"_$state", ArrSort(SInt, SInt))
			out := []modTarget{{Key: "F_" + typeKey(t) + "_$state", Idx: obj}}
			// fields of external structs that the code reads or writes directly
			for i := 0; i < u.NumFields(); i++ {
				if !isStructLike(u.Field(i).Type()) {
					k, so := fieldKey(t, i)
					if _, used := s.hsort[k]; used {
						s.heapSort(k, so)
						out = append(out, modTarget{Key: k, Idx: obj})
					}
				}
			}
			return out
		}
		for i := 0; i < u.NumFields(); i++ {
			ft := u.Field(i).Type()
			if isStructLike(ft) {
				out = append(out, s.allFieldsOf(env, ft, s.subRef(env.st, t, i, obj))...)
			} else {
				k, so := fieldKey(t, i)
				s.heapSort(k, so)
				out = append(out, modTarget{Key: k, Idx: obj})
			}
		}
	case *types.Array:
		k, so := elemKey(u.Elem())
		s.heapSort(k, so)
		out = append(out, modTarget{Key: k, Idx: obj})
	}
	return out
}

func (s *Session) modTarget(env *Env, x Expr) []modTarget {
	switch n := x.(type) {
	case *EIdent:
		if g := env.ghostDecl(n.Name); g != nil {
			v := env.ghostVal(g)
			s.heapSort(ghostKey(g.Name), v.T.Sort)
			return []modTarget{{Key: ghostKey(g.Name), Whole: true}}
		}
		if n.Name == "$alloc" {
			return []modTarget{{Key: "$brk", Whole: true}}
		}
		if env.pkg != nil {
			if o, ok := env.pkg.Scope().Lookup(n.Name).(*types.Var); ok {
				key := "Glob_" + sanitize(shortPkgOr(env.pkg.Path())) + "_" + n.Name
				s.heapSort(key, ArrSort(SInt, sortOf(o.Type())))
				return []modTarget{{Key: key, Whole: true}}
			}
		}
	case *EField:
		base := env.eval(n.X)
		if base.TypeName != nil {
			t, st := structOf(base.TypeName)
			if n.Name == "*" {
				var out []modTarget
				for _, mt := range s.allFieldsOf(env, t, TZero) {
					out = append(out, modTarget{Key: mt.Key, Whole: true})
				}
				return out
			}
			i := fieldIndex(st, n.Name)
			if i < 0 {
				fatalf("%s: modifies: no field %s", s.name, n.Name)
			}
			k, so := fieldKey(t, i)
			s.heapSort(k, so)
			return []modTarget{{Key: k, Whole: true}}
		}
		t, st := structOf(base.Ty)
		if st == nil {
			fatalf("%s: modifies: %s is not a struct", s.name, base.Ty)
		}
		if n.Name == "*" {
			return s.allFieldsOf(env, t, base.T)
		}
		i := fieldIndex(st, n.Name)
		if i < 0 {
			fatalf("%s: modifies: no field %s in %s", s.name, n.Name, t)
		}
		ft := st.Field(i).Type()
		if isStructLike(ft) {
			return s.allFieldsOf(env, ft, s.subRef(env.st, t, i, base.T))
		}
		k, so := fieldKey(t, i)
		s.heapSort(k, so)
		return []modTarget{{Key: k, Idx: base.T}}
	case *EIndex:
		base := env.eval(n.X)
		idx := env.eval(n.I)
		if base.GKey != nil {
			id, ok := n.X.(*EIdent)
			if !ok {
				fatalf("%s: modifies: unsupported ghost location", s.name)
			}
			return []modTarget{{Key: ghostKey(id.Name), Idx: idx.T}}
		}
		if mt, ok := base.Ty.Underlying().(*types.Map); ok {
			dk, vk, ds, vs := mapKeys(mt)
			s.heapSort(dk, ds)
			s.heapSort(vk, vs)
			return []modTarget{{Key: dk, Idx: base.T, Idx2: &idx.T}, {Key: vk, Idx: base.T, Idx2: &idx.T}}
		}
	case *ECall:
		switch n.Fun {
		case "contents":
			base := env.eval(n.Args[0])
			switch u := base.Ty.Underlying().(type) {
			case *types.Map:
				dk, vk, ds, vs := mapKeys(u)
				s.heapSort(dk, ds)
				s.heapSort(vk, vs)
				return []modTarget{{Key: dk, Idx: base.T}, {Key: vk, Idx: base.T}}
			case *types.Slice:
				k, so := elemKey(u.Elem())
				s.heapSort(k, so)
				return []modTarget{{Key: k, Idx: SArr(base.T)}}
			case *types.Pointer:
				if isStructLike(u.Elem()) {
					return s.allFieldsOf(env, u.Elem(), base.T)
				}
				k, so := boxKey(u.Elem())
				s.heapSort(k, so)
				return []modTarget{{Key: k, Idx: base.T}}
			}
		case "key":
			// key("Name"): a whole heap entry by its internal name (libspec only)
			if sx, ok := n.Args[0].(*EStr); ok {
				if strings.HasSuffix(sx.V, "_$state") {
					// the opaque state of an external struct type: make sure the entry exists so that
					// havocking it (and the frame obligation about it) is not skipped
					s.heapSort(sx.V, ArrSort(SInt, SInt))
				}
				return []modTarget{{Key: sx.V, Whole: true}}
			}
		}
	}
	fatalf("%s: unsupported modifies target", s.name)
	return nil
}

func (s *Session) havocTargets(st *State, ts []modTarget) {
	for _, t := range ts {
		so, ok := s.hsort[t.Key]
		if !ok {
			continue
		}
		if t.Whole {
			s.havocKey(st, t.Key)
			continue
		}
		a := s.H(st, t.Key, so)
		if t.Idx2 != nil {
			inner := Select(a, t.Idx)
			nv := s.fresh("hv", elemSortOf(inner.Sort))
			s.setH(st, t.Key, so, Store(a, t.Idx, Store(inner, *t.Idx2, nv)))
		} else {
			nv := s.fresh("hv", elemSortOf(so))
			s.setH(st, t.Key, so, Store(a, t.Idx, nv))
		}
	}
}

// contractModKeys: heap keys a contract may modify (static, for loop havoc).
func (s *Session) contractModKeys(con *Contract, callee *ssa.Function, c *ssa.CallCommon) []string {
	if !con.HasMod {
		if strings.HasPrefix(con.Pkg, modPath) && !con.Flags["nomod"] && !con.Flags["pure"] {
			return []string{"*"}
		}
		return nil
	}
	// evaluate the targets in a scratch state with symbolic arguments
	scratch := &State{heap: map[string]Term{}, seen: map[int]Term{}, counts: map[string]Term{}, fr: &Frame{regs: map[ssa.Value]Value{}, cells: map[*ssa.Alloc]Term{}, callN: map[string]int{}}}
	env := s.calleeEnv(scratch, con, callee, nil, false)
	sig := c.Signature()
	var args []Value
	if c.IsInvoke() {
		args = append(args, s.fresh("scratch", SIface))
	} else if sig.Recv() != nil {
		args = append(args, s.fresh("scratch", sortOf(sig.Recv().Type())))
	}
	if callee != nil && !c.IsInvoke() {
		for range callee.FreeVars {
			args = append(args, s.fresh("scratch", SInt))
		}
	}
	for j := 0; j < sig.Params().Len(); j++ {
		args = append(args, s.fresh("scratch", sortOf(sig.Params().At(j).Type())))
	}
	// free vars come first in bindArgs
	if callee != nil && len(callee.FreeVars) > 0 && !c.IsInvoke() {
		n := len(callee.FreeVars)
		var re []Value
		re = append(re, args[len(args)-sig.Params().Len()-n:len(args)-sig.Params().Len()]...)
		re = append(re, args[:len(args)-sig.Params().Len()-n]...)
		re = append(re, args[len(args)-sig.Params().Len():]...)
		args = re
	}
	s.bindArgs(env, sig, callee, args, c.IsInvoke())
	var keys []string
	for _, t := range s.modTargets(env, con.Modifies) {
		keys = append(keys, t.Key)
	}
	return keys
}

// ---------------------------------------------------------------- call sites

func (s *Session) callsiteSpec(calleeName string) *CallsiteSpec {
	if s.con == nil {
		return nil
	}
	match := func(pat string) bool {
		return pat == calleeName || strings.HasSuffix(calleeName, "."+pat) || strings.HasSuffix(calleeName, ")."+pat) || strings.HasSuffix(calleeName, "/"+pat)
	}
	for _, cs := range s.con.Callsites {
		pat := cs.Callee
		if i := strings.LastIndex(pat, "#"); i > 0 {
			// "f#k": the k-th call of f in the function under verification (instruction order)
			k, err := strconv.Atoi(pat[i+1:])
			if err != nil {
				continue
			}
			if match(pat[:i]) && s.callOrdinal(pat[:i]) == k {
				cs.used = true
				return cs
			}
			continue
		}
		if match(pat) {
			cs.used = true
			return cs
		}
	}
	return nil
}

// callOrdinal: position of the call being executed among the calls of the function under
// verification whose callee matches pat (static instruction order; 0 if not found).
func (s *Session) callOrdinal(pat string) int {
	n := 0
	for _, b := range s.fn.Blocks {
		for _, in := range b.Instrs {
			ci, ok := in.(ssa.CallInstruction)
			if !ok {
				continue
			}
			name := s.calleeName(ci.Common())
			if name == pat || strings.HasSuffix(name, "."+pat) || strings.HasSuffix(name, ")."+pat) || strings.HasSuffix(name, "/"+pat) {
				n++
				if in == s.curInstr {
					return n
				}
			}
		}
	}
	return 0
}

func (s *Session) ghostAssign(st *State, env *Env, a Assign) {
	env.st = st
	rhs := env.eval(a.RHS)
	switch l := a.LHS.(type) {
	case *EIdent:
		if _, _, ok := s.ghostLocal(st, l.Name); ok {
			fr := st.fr
			for fr.parent != nil {
				fr = fr.parent
			}
			if fr.glocals == nil {
				fr.glocals = map[string]Term{}
			}
			fr.glocals[l.Name] = rhs.T
			return
		}
		g := env.ghostDecl(l.Name)
		if g == nil {
			fatalf("%s: ghost assignment to unknown ghost %s", s.name, l.Name)
		}
		v := env.ghostVal(g)
		s.setH(st, ghostKey(g.Name), v.T.Sort, rhs.T)
	case *EIndex:
		if inner, ok2 := l.X.(*EIndex); ok2 {
			// g[i][j] = v
			id, ok := inner.X.(*EIdent)
			if !ok {
				fatalf("%s: unsupported ghost assignment %s", s.name, a.Src)
			}
			g := env.ghostDecl(id.Name)
			if g == nil {
				fatalf("%s: ghost assignment to unknown ghost %s", s.name, id.Name)
			}
			v := env.ghostVal(g)
			i1 := env.eval(inner.I)
			i2 := env.eval(l.I)
			s.setH(st, ghostKey(g.Name), v.T.Sort, Store(v.T, i1.T, Store(Select(v.T, i1.T), i2.T, rhs.T)))
			return
		}
		id, ok := l.X.(*EIdent)
		if !ok {
			fatalf("%s: unsupported ghost assignment %s", s.name, a.Src)
		}
		g := env.ghostDecl(id.Name)
		if g == nil {
			fatalf("%s: ghost assignment to unknown ghost %s", s.name, id.Name)
		}
		v := env.ghostVal(g)
		idx := env.eval(l.I)
		s.setH(st, ghostKey(g.Name), v.T.Sort, Store(v.T, idx.T, rhs.T))
	default:
		fatalf("%s: unsupported ghost assignment %s", s.name, a.Src)
	}
}

func clauseLabel(c Clause, i int) string {
	if c.Label != "" {
		return c.Label
	}
	return fmt.Sprintf("%d", i+1)
}

// applyContract replaces a call by the callee's contract.
func (s *Session) applyContract(st *State, con *Contract, callee *ssa.Function, sig *types.Signature, args []Value, name string, pos token.Pos, k func(st *State, res Value)) {
	s.usedCon[name] = true
	if !strings.HasPrefix(con.Pkg, modPath) {
		s.trusted[name] = true
	}
	short := relSuffix(name)
	env := s.calleeEnv(st, con, callee, args, false)
	s.bindArgs(env, sig, callee, args, callee == nil)
	// the callee's per-activation ghost variables are existentially quantified for the caller
	for _, gl := range con.GhostLocals {
		t := s.P.resolveType(env.pkg, gl.Type)
		env.vars[gl.Name] = EVal{T: s.freshTyped(st, "gl_"+gl.Name, t), Ty: t}
	}
	cs := s.callsiteSpec(name)
	cenv := s.callerEnv(st)
	cenv.pos = pos
	for k, v := range env.vars {
		if strings.HasPrefix(k, "arg") || k == "recv" {
			cenv.vars[k] = v
		}
	}
	if cs != nil {
		for _, a := range cs.AssumePre {
			s.note("assumed before the call of " + short + ": " + a.Src)
			st.assume(s.evalBool(st, cenv, a.E, a.Src))
		}
		for _, a := range cs.GhostPre {
			s.ghostAssign(st, cenv, a)
		}
	}
	if con.Flags["maypanic"] && !s.conFlag("maypanic") {
		if s.recoversPanics() {
			// the callee may panic; this function defers a closure that calls recover(), so the panic
			// does not leave it (the paths after a recovered panic are not explored: the function then
			// returns its named results as they are)
			s.note("panic of " + short + " is contained: " + s.name + " defers a function that recovers")
			s.check(st, "safe.maypanic", s.obl("safe.maypanic", short), TTrue, pos)
		} else {
			s.check(st, "safe.maypanic", s.obl("safe.maypanic", short), TFalse, pos)
		}
	}
	for i, r := range con.Requires {
		s.check(st, "pre", s.obl("pre("+short+")#"+clauseLabel(r, i), ""), s.evalBool(st, env, r.E, r.Src), pos)
	}
	if cs != nil {
		for i, r := range cs.Requires {
			s.check(st, "pre", s.obl("pre("+short+")#site-"+clauseLabel(r, i), ""), s.evalBool(st, cenv, r.E, r.Src), pos)
		}
	}
	// assume the preconditions on the continuing path (they were just checked)
	for _, r := range con.Requires {
		st.assume(s.evalBool(st, env, r.E, r.Src))
	}
	// rely-guarantee hook: shared-field writes performed by the callee are its own obligation
	old := s.snap(st)
	env.old = old
	switch {
	case con.ModAll || con.Flags["havocall"]:
		s.havocAll(st)
	case con.HasMod:
		tg := s.modTargets(env, con.Modifies)
		s.havocKey(st, "$brk")
		s.havocTargets(st, tg)
	case strings.HasPrefix(con.Pkg, modPath) && !con.Flags["nomod"] && !con.Flags["pure"]:
		// in-module contract without a frame: everything may change
		s.havocAll(st)
	default:
		s.heapSort("$brk", SInt)
		s.havocKey(st, "$brk")
	}
	if s.rg != nil {
		s.rgAfterCall(st, old)
	}
	// results
	var res []Value
	for i := 0; i < sig.Results().Len(); i++ {
		rt := sig.Results().At(i).Type()
		var v Term
		if con.Flags["pure"] {
			fname := fmt.Sprintf("pf_%s_%d", sanitize(name), i)
			var sorts []Sort
			var ats []Term
			for j, a := range args {
				var at types.Type
				_ = j
				t := s.asTerm(a, at)
				sorts = append(sorts, t.Sort)
				ats = append(ats, t)
			}
			s.D.Fun(fname, sorts, sortOf(rt))
			if len(ats) == 0 {
				v = Term{fname, sortOf(rt)}
			} else {
				v = mk(sortOf(rt), fname, ats...)
			}
			st.assume(s.wellTyped(st, rt, v))
		} else {
			v = s.freshTyped(st, "ret_"+short, rt)
		}
		res = append(res, v)
		env.result = append(env.result, EVal{T: v, Ty: rt})
	}
	for i := 0; i < sig.Results().Len(); i++ {
		if n := sig.Results().At(i).Name(); n != "" && n != "_" {
			if _, clash := env.vars[n]; !clash {
				env.vars[n] = env.result[i]
			}
		}
	}
	s.addParamAliases(env, callee)
	env.st = st
	for _, c := range con.Ensures {
		if strings.Contains(c.Src, "calls(") || strings.Contains(c.Src, "returned(") {
			// a clause about the callee's own activation (how often IT called something): it says nothing
			// the caller could use, and its counters must not be read as the caller's
			continue
		}
		st.assumeG(s.evalBool(st, env, c.E, c.Src), labelGroup(c.Label))
	}
	// counters
	ck := "calls:" + name
	cur, ok := st.counts[ck]
	if !ok {
		cur = TZero
	}
	st.counts[ck] = Add(cur, IntLit(1))
	if con.Flags["noreturn"] {
		return
	}
	rk := "returned:" + name
	cur, ok = st.counts[rk]
	if !ok {
		cur = TZero
	}
	st.counts[rk] = Add(cur, IntLit(1))
	if cs != nil {
		cenv2 := s.callerEnv(st)
		cenv2.pos = pos
		cenv2.old = old
		cenv2.result = env.result
		for k, v := range env.vars {
			if strings.HasPrefix(k, "arg") || k == "recv" {
				cenv2.vars[k] = v
			}
		}
		for _, a := range cs.Assume {
			s.note("assumed at call of " + short + ": " + a.Src)
			st.assume(s.evalBool(st, cenv2, a.E, a.Src))
		}
		for _, a := range cs.Ghost {
			s.ghostAssign(st, cenv2, a)
		}
	}
	k(st, resultValue(sig, res))
}

// ---------------------------------------------------------------- loops

func (s *Session) loopEnv(st *State, li *loopInfo) *Env {
	env := s.callerEnv(st)
	env.loop = li
	base := env.lookup
	env.lookup = func(name string) (EVal, bool) {
		switch name {
		case "rangeindex":
			if li.rangeIdx != nil {
				fr := st.fr
				if v, ok := fr.cells[li.rangeIdx]; ok {
					return EVal{T: v, Ty: types.Typ[types.Int]}, true
				}
			}
			if li.idxCell != nil {
				// canonical index loop: the index of the last completed iteration is i - 1
				if v, ok := st.fr.cells[li.idxCell]; ok {
					return EVal{T: mk(SInt, "-", v, IntLit(1)), Ty: types.Typ[types.Int]}, true
				}
			}
		case "$seen":
			its := li.iters
			if len(its) == 0 {
				// an inner loop: the iterator of the enclosing map-range loop
				for _, ol := range s.loops {
					if ol != li && ol.blocks[li.head] && len(ol.iters) > 0 {
						its = ol.iters
					}
				}
			}
			if len(its) > 0 {
				it := s.val(st, its[0]).(*Iter)
				return EVal{T: st.seen[it.id], GKey: it.MT.Key(), GVal: types.Typ[types.Bool]}, true
			}
		}
		return base(name)
	}
	return env
}

func (s *Session) autoInvariants(st *State, li *loopInfo) []Term {
	var out []Term
	fr := st.fr
	if li.rangeIdx != nil {
		if v, ok := fr.cells[li.rangeIdx]; ok {
			out = append(out, Le(IntLit(-1), v))
			// rangeindex < len: the length is the SSA value compared in the head block
			for _, in := range li.head.Instrs {
				if b, ok := in.(*ssa.BinOp); ok && b.Op == token.LSS {
					if ln, ok := fr.regs[b.Y]; ok {
						if lt, ok := ln.(Term); ok {
							out = append(out, Or(Eq(v, IntLit(-1)), Lt(v, lt)))
						}
					}
				}
			}
		}
	}
	if li.rangeIdx == nil && li.idxCell != nil {
		if v, ok := fr.cells[li.idxCell]; ok {
			out = append(out, Le(TZero, v)) // checked like every invariant: holds at entry if the counter starts >= 0, preserved by i++
			// i <= len(x) when the head compares with the length of a local slice (so that i == len(x) on exit)
			if iff, ok := li.head.Instrs[len(li.head.Instrs)-1].(*ssa.If); ok {
				if cmp, ok := iff.Cond.(*ssa.BinOp); ok {
					if call, ok := cmp.Y.(*ssa.Call); ok {
						if b, ok := call.Call.Value.(*ssa.Builtin); ok && b.Name() == "len" && len(call.Call.Args) == 1 {
							if ld, ok := call.Call.Args[0].(*ssa.UnOp); ok && ld.Op == token.MUL {
								if c, ok := ld.X.(*ssa.Alloc); ok {
									if sv, ok := fr.cells[c]; ok && sv.Sort == SSlice {
										out = append(out, Le(v, SLen(sv)))
									}
								}
							}
						}
					}
				}
			}
		}
	}
	for _, r := range li.iters {
		itv, ok := fr.regs[r]
		if !ok {
			continue
		}
		it := itv.(*Iter)
		dk, _, ds, _ := mapKeys(it.MT)
		if _, mod := li.keys[dk]; mod || li.modAll {
			fatalf("%s: loop %d mutates the map it ranges over (unsupported)", s.name, li.ord)
		}
		dom := Select(s.H(st, dk, ds), it.M)
		ks := sortOf(it.MT.Key())
		qv := Term{"k!q", ks}
		out = append(out, Term{fmt.Sprintf("(forall ((k!q %s)) (=> %s (and (not (= %s 0)) %s)))", ks, Select(st.seen[it.id], qv).S, it.M.S, Select(dom, qv).S), SBool})
	}
	return out
}

func (s *Session) checkInvariants(st *State, li *loopInfo, kind string) {
	pos := li.head.Instrs[0].Pos()
	for i, t := range s.autoInvariants(st, li) {
		s.check(st, kind, s.obl(fmt.Sprintf("loop%d.%s#auto%d", li.ord, kind, i+1), ""), t, pos)
	}
	for _, ff := range s.loopFrame(st, li) {
		s.check(st, kind, s.obl(fmt.Sprintf("loop%d.%s#frame(%s)", li.ord, kind, ff.key), ""), ff.t, pos)
	}
	if li.spec == nil {
		return
	}
	env := s.loopEnv(st, li)
	for i, c := range li.spec.Invs {
		s.checkG(st, kind, s.obl(fmt.Sprintf("loop%d.%s#%s", li.ord, kind, clauseLabel(c, i)), ""), s.evalBool(st, env, c.E, c.Src), pos, labelGroup(c.Label))
	}
}

type keyedTerm struct {
	key string
	t   Term
}

// loopFrame: the function's own frame condition, restricted to the heap
// entries the loop may modify, is an (automatic) invariant of every loop.
func (s *Session) loopFrame(st *State, li *loopInfo) []keyedTerm {
	if s.con == nil || !s.framed() || s.con.ModAll || li.modAll {
		return nil
	}
	fr := st.fr
	for fr.inline && fr.parent != nil {
		fr = fr.parent
	}
	env := s.funcEnv(st, fr, nil)
	var keys []string
	for k := range li.keys {
		keys = append(keys, k)
	}
	sort.Strings(keys)
	var out []keyedTerm
	for _, ft := range s.frameTerms(st, env, keys) {
		out = append(out, ft)
	}
	return out
}

func (s *Session) havocLoop(st *State, li *loopInfo) {
	fr := st.fr
	if li.modAll {
		s.havocAll(st)
	} else {
		var keys []string
		for k := range li.keys {
			keys = append(keys, k)
		}
		sort.Strings(keys) // "$brk" sorts first: closure facts of the other entries refer to the new mark
		for _, k := range keys {
			if li.keys[k] == "" {
				fatalf("%s: loop %d: sort of modified heap entry %s unknown", s.name, li.ord, k)
			}
			s.heapSort(k, li.keys[k])
			s.havocKey(st, k)
		}
	}
	for k := range li.keys {
		if strings.HasPrefix(k, "Glob_") {
			s.assumeGlobalInvs(st)
			break
		}
	}
	for _, a := range li.cells {
		if _, ok := fr.cells[a]; !ok {
			continue // declared inside the loop: initialised by its Alloc
		}
		t := a.Type().Underlying().(*types.Pointer).Elem()
		fr.cells[a] = s.freshTyped(st, a.Comment, t)
	}
	for _, r := range li.iters {
		if itv, ok := fr.regs[r]; ok {
			it := itv.(*Iter)
			st.seen[it.id] = s.fresh("seen", ArrSort(sortOf(it.MT.Key()), SBool))
		}
	}
	if s.con != nil && len(s.con.GhostLocals) > 0 {
		top := fr
		for top.parent != nil {
			top = top.parent
		}
		if top.glocals == nil {
			top.glocals = map[string]Term{}
		}
		for _, g := range s.con.GhostLocals {
			t := s.P.resolveType(s.fn.Pkg.Pkg, g.Type)
			top.glocals[g.Name] = s.freshTyped(st, "gl_"+g.Name, t)
		}
	}
	// counters that may change in the loop become unknown
	for k := range st.counts {
		st.counts[k] = s.fresh("count", SInt)
		st.assume(Le(TZero, st.counts[k]))
	}
	if s.rg != nil {
		s.rgHavoc(st)
	}
}

func (s *Session) assumeInvariants(st *State, li *loopInfo) {
	for _, t := range s.autoInvariants(st, li) {
		st.assume(t)
	}
	for _, ff := range s.loopFrame(st, li) {
		st.assume(ff.t)
	}
	if li.spec == nil {
		return
	}
	env := s.loopEnv(st, li)
	for i, c := range li.spec.Invs {
		t := s.evalBool(st, env, c.E, c.Src)
		st.assumeG(t, labelGroup(c.Label))
		s.rgStable(st, fmt.Sprintf("loop%d.inv#%s", li.ord, clauseLabel(c, i)), t, li.head.Instrs[0].Pos())
	}
}

// ---------------------------------------------------------------- function verification

type FnResult struct {
	Name     string
	VCs      []*VC
	Inlined  []string
	Trusted  []string
	UsedCon  []string
	Notes    []string
	Paths    int
	Err      string
	HasCon   bool
}

func (P *Prog) verifyFn(name string, sweep bool) (res *FnResult) {
	res = &FnResult{Name: name}
	fn := P.fns[name]
	if fn == nil {
		res.Err = "function " + name + " not found in the working tree"
		return
	}
	defer func() {
		if r := recover(); r != nil {
			if te, ok := r.(toolError); ok {
				res.Err = te.msg
				return
			}
			panic(r)
		}
	}()
	s := &Session{P: P, fn: fn, name: name, D: NewDecls(), hsort: map[string]Sort{}, lits: map[string]Term{}, oblN: map[string]int{},
		inlined: map[string]bool{}, trusted: map[string]bool{}, usedCon: map[string]bool{}, sweep: sweep, maxPaths: 6000}
	s.spec = s.specOf(fn.Pkg.Pkg.Path())
	s.con = s.spec.Contracts[P.relName(fn)]
	res.HasCon = s.con != nil
	s.rgInit()
	s.analyzeLoops()
	if fn.Blocks == nil {
		res.Err = "no body"
		return
	}
	st := &State{heap: map[string]Term{}, seen: map[int]Term{}, counts: map[string]Term{}}
	fr := &Frame{fn: fn, regs: map[ssa.Value]Value{}, cells: map[*ssa.Alloc]Term{}, params: map[string]Term{}, callN: map[string]int{}}
	st.fr = fr
	s.heapSort("$brk", SInt)
	st.assume(Le(TZero, s.H(st, "$brk", SInt)))
	for _, p := range fn.Params {
		v := s.freshTyped(st, "p_"+p.Name(), p.Type())
		fr.regs[p] = v
		fr.params[p.Name()] = v
	}
	for _, fv := range fn.FreeVars {
		// pointer to the captured variable
		ptr := s.fresh("fv_"+fv.Name(), SInt)
		st.assume(And(Ne(ptr, TZero), Le(ptr, s.H(st, "$brk", SInt))))
		fr.regs[fv] = ptr
		t := fv.Type().Underlying().(*types.Pointer).Elem()
		if isStructLike(t) {
			fr.params["$fv:"+fv.Name()] = ptr
		} else {
			k, so := boxKey(t)
			cur := Select(s.H(st, k, so), ptr)
			st.assume(s.wellTyped(st, t, cur))
			fr.params["$fv:"+fv.Name()] = cur
		}
	}
	// captured variables are distinct cells
	for i := range fn.FreeVars {
		for j := i + 1; j < len(fn.FreeVars); j++ {
			a, b := fr.regs[fn.FreeVars[i]].(Term), fr.regs[fn.FreeVars[j]].(Term)
			st.assume(Ne(a, b))
		}
	}
	s.assumeGlobalInvs(st)
	fr.entry = s.snap(st)
	// preconditions
	if s.con != nil {
		env := s.funcEnv(st, fr, nil)
		for i, r := range s.con.Requires {
			t := s.evalBool(st, env, r.E, r.Src)
			st.assume(t)
			s.rgStable(st, "requires#"+clauseLabel(r, i), t, fn.Pos())
		}
		// vacuity: the preconditions must be satisfiable
		vc := &VC{Obl: s.obl("vacuity.requires-sat", ""), Kind: "vacuity", Fn: s.name, ExpectSat: true, Goal: "requires satisfiable"}
		vc.SMT = s.vcText(st, TTrue, "*")
		s.vcs = append(s.vcs, vc)
	}
	if s.rg != nil {
		s.rgEntry(st)
	}
	fr.k = func(st *State, results []Value) { s.atReturn(st, results) }
	s.mergeOn = os.Getenv("GOVC_NOMERGE") == ""
	s.pending = map[*ssa.BasicBlock][]parked{}
	s.computeRPO()
	s.execFrom(st, fn.Blocks[0], nil)
	s.drain()
	// binding checks: every loop / callsite clause of the contract was used
	if s.con != nil {
		for _, ls := range s.con.Loops {
			if !ls.used {
				fatalf("%s:%d: loop %d clause did not bind", s.con.File, ls.Line, ls.N)
			}
		}
		for _, cs := range s.con.Callsites {
			if !cs.used {
				fatalf("%s:%d: callsite %q of %s did not bind to any call", s.con.File, cs.Line, cs.Callee, s.name)
			}
		}
	}
	s.checkEffects()
	s.finalize()
	res.VCs = s.vcs
	res.Paths = s.paths
	res.Notes = s.notes
	for k := range s.inlined {
		res.Inlined = append(res.Inlined, k)
	}
	for k := range s.trusted {
		res.Trusted = append(res.Trusted, k)
	}
	for k := range s.usedCon {
		res.UsedCon = append(res.UsedCon, k)
	}
	sort.Strings(res.Inlined)
	sort.Strings(res.Trusted)
	sort.Strings(res.UsedCon)
	return
}

var canaryDone = map[string]int{}

func (s *Session) atReturn(st *State, results []Value) {
	fr := st.fr
	if s.rg != nil {
		s.rgAtReturn(st)
	}
	if s.con == nil {
		return
	}
	env := s.funcEnv(st, fr, results)
	for i, c := range s.con.Ensures {
		t := s.evalBool(st, env, c.E, c.Src)
		s.checkG(st, "post", s.obl("post#"+clauseLabel(c, i), ""), t, s.fn.Pos(), labelGroup(c.Label))
		s.rgStable(st, "post#"+clauseLabel(c, i), t, s.fn.Pos())
	}
	if s.framed() && !s.con.ModAll {
		// `nomod` / `pure` on a function that is itself verified is a checked claim (= modifies nothing)
		s.checkFrame(st, env)
	}
	// vacuity canary: "ensures false" must fail on at least one return path
	// (aggregated: the obligation holds if ANY return path is not provably dead)
	if canaryDone[s.name] < 6 {
		canaryDone[s.name]++
		vc := &VC{Obl: s.obl("vacuity.canary", ""), Kind: "canary", Fn: s.name, ExpectSat: true, Goal: "a return path is reachable", Path: strings.Join(st.path, "")}
		vc.SMT = s.vcText(st, TTrue, "*")
		s.vcs = append(s.vcs, vc)
	}
}

// checkFrame: nothing outside the modifies clause changed (for objects that
// existed at entry).
func (s *Session) checkFrame(st *State, env *Env) {
	var keys []string
	for k := range s.hsort {
		keys = append(keys, k)
	}
	sort.Strings(keys)
	for _, ft := range s.frameTerms(st, env, keys) {
		s.check(st, "frame", s.obl("frame("+ft.key+")", ""), ft.t, s.fn.Pos())
	}
}

// frameTerms: for each heap entry in keys that differs from the entry state,
// the statement that it changed only at the locations of the modifies clause.
func (s *Session) frameTerms(st *State, env *Env, keys []string) []keyedTerm {
	fr := st.fr
	for fr.inline && fr.parent != nil {
		fr = fr.parent
	}
	oenv := env.child()
	oenv.inOld = true // locations are named in the entry state
	oenv.st = st
	targets := s.modTargets(oenv, s.con.Modifies)
	by := map[string][]modTarget{}
	whole := map[string]bool{}
	for _, t := range targets {
		if t.Whole {
			whole[t.Key] = true
		}
		by[t.Key] = append(by[t.Key], t)
	}
	brk0 := s.HSnap(fr.entry, "$brk", SInt)
	var out []keyedTerm
	for _, k := range keys {
		if k == "$brk" || whole[k] || s.sharedKey(k) != nil {
			continue // shared fields: writes are governed by guar/own, other threads' writes by the rely
		}
		if strings.HasPrefix(k, "G_scratch") {
			continue // scratch ghosts (arbitrary before every use, meaningful only inside one function): no frame
		}
		so, ok := s.hsort[k]
		if !ok {
			continue
		}
		cur, old := s.H(st, k, so), s.HSnap(fr.entry, k, so)
		if cur.S == old.S {
			continue
		}
		if !strings.HasPrefix(string(so), "(Array") {
			out = append(out, keyedTerm{k, Eq(cur, old)})
			continue
		}
		if strings.HasPrefix(k, "G_") || strings.HasPrefix(k, "Glob_") {
			is := idxSortOf(so)
			q := Term{"i!f", is}
			var ex []Term
			for _, t := range by[k] {
				ex = append(ex, Eq(q, t.Idx))
			}
			body := Implies(Not(Or(ex...)), Eq(Select(cur, q), Select(old, q)))
			out = append(out, keyedTerm{k, Term{fmt.Sprintf("(forall ((i!f %s)) %s)", is, body.S), SBool}})
			continue
		}
		q := Term{"i!f", SInt}
		var ex []Term
		var parts []Term
		done := map[string]bool{}
		for _, t := range by[k] {
			ex = append(ex, Eq(q, t.Idx))
			if t.Idx2 == nil || done[t.Idx.S] {
				continue
			}
			// entries of this map/array named individually: all others are unchanged
			done[t.Idx.S] = true
			inner := idxSortOf(elemSortOf(so))
			q2 := Term{"j!f", inner}
			var ex2 []Term
			wholeObj := false
			for _, t2 := range by[k] {
				if t2.Idx.S == t.Idx.S {
					if t2.Idx2 == nil {
						wholeObj = true
					} else {
						ex2 = append(ex2, Eq(q2, *t2.Idx2))
					}
				}
			}
			if !wholeObj {
				parts = append(parts, Term{fmt.Sprintf("(forall ((j!f %s)) %s)", inner, Implies(Not(Or(ex2...)), Eq(Select(Select(cur, t.Idx), q2), Select(Select(old, t.Idx), q2))).S), SBool})
			}
		}
		body := Implies(And(Lt(TZero, q), Le(q, brk0), Not(Or(ex...))), Eq(Select(cur, q), Select(old, q)))
		parts = append(parts, Term{fmt.Sprintf("(forall ((i!f Int)) %s)", body.S), SBool})
		out = append(out, keyedTerm{k, And(parts...)})
	}
	return out
}

// verifyLemmas checks the lemma clauses of a package's contracts (stand-alone facts).
func (P *Prog) verifyLemmas(pkgShort string) *FnResult {
	res := &FnResult{Name: pkgShort + ":lemmas"}
	defer func() {
		if r := recover(); r != nil {
			if te, ok := r.(toolError); ok {
				res.Err = te.msg
				return
			}
			panic(r)
		}
	}()
	for path, sp := range P.specs {
		if P.short[path] != pkgShort || len(sp.Lemmas) == 0 {
			continue
		}
		// any function of the package serves as typing context
		var fn *ssa.Function
		for _, f := range P.fns {
			if f.Pkg != nil && f.Pkg.Pkg.Path() == path && f.Parent() == nil && f.Blocks != nil {
				fn = f
				break
			}
		}
		s := &Session{P: P, fn: fn, name: pkgShort, D: NewDecls(), hsort: map[string]Sort{}, lits: map[string]Term{}, oblN: map[string]int{},
			inlined: map[string]bool{}, trusted: map[string]bool{}, usedCon: map[string]bool{}, maxPaths: 10}
		s.spec = sp
		st := &State{heap: map[string]Term{}, seen: map[int]Term{}, counts: map[string]Term{}}
		st.fr = &Frame{fn: fn, regs: map[ssa.Value]Value{}, cells: map[*ssa.Alloc]Term{}, params: map[string]Term{}, callN: map[string]int{}}
		st.fr.entry = s.snap(st)
		for i, l := range sp.Lemmas {
			env := &Env{s: s, pkg: fn.Pkg.Pkg, spec: sp, st: st, vars: map[string]EVal{}, bound: map[string]EVal{}}
			s.check(st, "lemma", pkgShort+":lemma#"+clauseLabel(l, i), s.evalBool(st, env, l.E, l.Src), token.NoPos)
		}
		s.finalize()
		res.VCs = append(res.VCs, s.vcs...)
	}
	return res
}

// recoversPanics: the function under verification defers a closure whose body calls recover().
func (s *Session) recoversPanics() bool {
	for _, b := range s.fn.Blocks {
		for _, in := range b.Instrs {
			d, ok := in.(*ssa.Defer)
			if !ok {
				continue
			}
			mc, ok := d.Call.Value.(*ssa.MakeClosure)
			var cf *ssa.Function
			if ok {
				cf, _ = mc.Fn.(*ssa.Function)
			} else if f, ok := d.Call.Value.(*ssa.Function); ok {
				cf = f
			}
			if cf == nil {
				continue
			}
			for _, cb := range cf.Blocks {
				for _, ci := range cb.Instrs {
					if c, ok := ci.(*ssa.Call); ok {
						if bi, ok := c.Call.Value.(*ssa.Builtin); ok && bi.Name() == "recover" {
							return true
						}
					}
				}
			}
		}
	}
	return false
}

// framed: the function under verification carries a frame that is checked: an explicit modifies
// clause, or `nomod` / `pure` (= modifies nothing). In sweep mode callees without contract havoc
// everything, so a frame cannot be established and nomod stays an unchecked annotation there.
func (s *Session) framed() bool {
	if s.con == nil {
		return false
	}
	return s.con.HasMod || (!s.sweep && (s.con.Flags["nomod"] || s.con.Flags["pure"]))
}
