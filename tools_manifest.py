#!/usr/bin/env python3
# Regenerates MANIFEST.json from manifest_src.json (claimed checks) + properties.jsonl (everything else -> not_applicable)
import json,subprocess
props=[json.loads(l) for l in open('/verif/properties.jsonl')]
src=json.load(open('/verif/manifest_src.json'))
hooks=subprocess.check_output(['git','-C','/repo','log','--format=%H %s']).decode().splitlines()
hook_commits=[l.split(' ',1)[0] for l in hooks if l.split(' ',1)[1].startswith('verif:')]
checks=[]
for pid,c in src['checks'].items():
    checks.append({
      "property_id":pid,
      "quick_cmd":"./bin/govc check --tier quick %s"%pid,
      "thorough_cmd":"./bin/govc check --tier thorough %s"%pid,
      "evidence_file":"/verif/evidence/%s.json"%pid,
      "replay_cmd_template":"./bin/govc replay {path}",
      "engine":"govc",
      "level_claimed":{"category":"proof","text":c['text'],"design_ref":c.get('design_ref','DESIGN.md §5')},
      "level_note":c['note'],
      "technique":c.get('technique',"contract-based deductive verification: requires/ensures/loop invariants/frames on the real functions, VCs generated from go/ssa of /repo, discharged by z3/cvc5"),
    })
claimed=set(src['checks'])
na=[]
for p in props:
    if p['id'] in claimed: continue
    na.append({"property_id":p['id'],"reason":src['not_applicable'].get(p['id'],"not reached yet: no check is claimed until its obligations discharge on the committed tree (see DESIGN.md build order)")})
m={
 "version":1,
 "setup_cmd":"cd /verif/govc && GOFLAGS=-mod=vendor GOPROXY=off GOSUMDB=off GOTOOLCHAIN=local go build -o /verif/bin/govc ./cmd/govc",
 "hooks":{"guard":"verif","enable":"-tags verif: comment-only contract files <pkg>/verif_contracts.go (//@ lines) are read by govc; they contain no executable code","baseline_off_cmd":"cd /repo && go test -mod=mod -vet=off -count=1 -timeout 25m ./...","source_commits":hook_commits,"add_only":True},
 "engines":[{"name":"govc","path":"/verif/govc","serves_properties":sorted(claimed),"kind_free_text":"own verification-condition generator for Go: symbolic execution of go/ssa (NaiveForm) function by function against contracts, SMT-LIB obligations discharged by z3 5.1.0 / z3 4.8.12 / cvc5 1.0"}],
 "checks":checks,
 "notes":src.get('notes',''),
 "not_applicable":na,
}
json.dump(m,open('/verif/MANIFEST.json','w'),indent=1)
print(len(checks),'checks',len(na),'n/a')
