import Mathlib

/-!
# C02: the final status vector is determined by the graph and the task outcomes alone

The contracts of `checkStatus`, `Schedule$2` and `Schedule` (C01–C03) establish, for every
run that returns un-cancelled, LOCAL rules about the final (terminal) status of every stage:

* `cancel-justified` / `cancel-complete`: a stage is `canceled` exactly if one of its
  dependencies ended *blocking* (canceled, or failed without `allow_failure`);
* `error-recorded` / `done-otherwise` and the skip rule: a stage that is not canceled ends
  in the status fixed by its own outcome (`ok`, `fail`, condition not met) and `allow_failure`.

This file proves the paper step that was missing in DESIGN.md: on an acyclic (well-founded)
dependency relation these local rules have AT MOST ONE solution. Hence two runs of the same
pipeline with the same task outcomes end in the same status vector, whatever the timing:
which stages ran and which were cancelled does not depend on the schedule.
-/

namespace C02

inductive Outcome | ok | fail | skip
  deriving DecidableEq

inductive Status | done | skipped | error | canceled
  deriving DecidableEq

open Status

/-- A pipeline: dependency relation (`dep s d`: stage `s` depends on stage `d`), acyclic;
per-stage `allow_failure`; per-stage outcome of the stage's own work. -/
structure Pipeline (α : Type) where
  dep   : α → α → Prop
  wf    : WellFounded (fun d s => dep s d)
  allow : α → Bool
  out   : α → Outcome

variable {α : Type}

/-- Status of a stage that was run (scheduler.go: an allowed failure ends `done`). -/
def ranStatus (P : Pipeline α) (s : α) : Status :=
  match P.out s with
  | .ok   => done
  | .skip => skipped
  | .fail => if P.allow s then done else error

/-- `blocking` of the contracts: the dependants of such a stage must not run. -/
def blocking (P : Pipeline α) (f : α → Status) (d : α) : Prop :=
  f d = canceled ∨ (f d = error ∧ P.allow d = false)

/-- The local rules discharged by the contracts for every terminal status vector. -/
def Rules (P : Pipeline α) (f : α → Status) : Prop :=
  ∀ s, (f s = canceled ↔ ∃ d, P.dep s d ∧ blocking P f d) ∧
       (f s ≠ canceled → f s = ranStatus P s)

/-- Uniqueness: the rules determine the status vector. -/
theorem status_vector_unique (P : Pipeline α) (f g : α → Status)
    (hf : Rules P f) (hg : Rules P g) : f = g := by
  funext s
  induction s using P.wf.induction with
  | _ s ih =>
    have hblock : (∃ d, P.dep s d ∧ blocking P f d) ↔ (∃ d, P.dep s d ∧ blocking P g d) := by
      constructor
      · rintro ⟨d, hd, hb⟩
        exact ⟨d, hd, by simpa [blocking, ih d hd] using hb⟩
      · rintro ⟨d, hd, hb⟩
        exact ⟨d, hd, by simpa [blocking, ih d hd] using hb⟩
    by_cases hc : f s = canceled
    · have : g s = canceled := ((hg s).1).2 (hblock.1 (((hf s).1).1 hc))
      rw [hc, this]
    · have hgc : g s ≠ canceled := by
        intro h
        exact hc (((hf s).1).2 (hblock.2 (((hg s).1).1 h)))
      rw [(hf s).2 hc, (hg s).2 hgc]

/-- Corollary in the words of the property: whether a stage runs (is not cancelled) is the
same in any two runs with the same outcomes. -/
theorem same_stages_run (P : Pipeline α) (f g : α → Status)
    (hf : Rules P f) (hg : Rules P g) (s : α) : f s = canceled ↔ g s = canceled := by
  rw [status_vector_unique P f g hf hg]

end C02
